SPECIFICATION Spec
CONSTANTS
  Xs <- MCXs
  W = 4
  Ws <- MCWs
  MOlds <- MCMOlds
  Burns = {TRUE, FALSE}
INVARIANT ProbsSumToOne
INVARIANT MeanIsConvex
INVARIANT TotalMean
INVARIANT EqualSplit
INVARIANT VarNonNegative
