---------------------------- MODULE Ingest ----------------------------
(***************************************************************************)
(* Ingestion of a table of visits into the canonical per-individual form   *)
(* (leaspy.io.data: dataframe readers, IndividualData, Data, Dataset).     *)
(* A table is a sequence of rows [id, age, vals]; ages and values are      *)
(* abstract kinds:                                                         *)
(*   ages  "1" < "2" , "2r" (differs from "2" beyond the 6th decimal, so   *)
(*          equal to it after rounding), "nan", "inf"                      *)
(*   vals  "x", "y" (two numbers), "nan" (missing), "inf"                  *)
(* Table-level attributes: how identifiers are typed (idkind) and whether  *)
(* a feature column holds text.                                            *)
(***************************************************************************)
EXTENDS Naturals, Sequences, FiniteSets, TLC, SequencesExt

CONSTANTS Ids,        \* e.g. {"A", "B"}
          AgeKinds,   \* subset of {"1","2","2r","nan","inf"}
          ValKinds,   \* subset of {"x","y","nan","inf"}
          NFeat,      \* number of feature columns
          MaxRows,
          IdKinds,    \* subset of {"str","int","cat","negint","float","emptystr","nanid","mixed","nullint","catnan"}
          TextCols    \* subset of BOOLEAN

VARIABLES table, idkind, text
vars == <<table, idkind, text>>

Rows == [id : Ids, age : AgeKinds, vals : [1..NFeat -> ValKinds]]
Init == /\ table \in UNION {[1..n -> Rows] : n \in 0..MaxRows}
        /\ idkind \in IdKinds /\ text \in TextCols
Next == UNCHANGED vars
Spec == Init /\ [][Next]_vars

-----------------------------------------------------------------------------
Round(a) == IF a = "2r" THEN "2" ELSE a            \* rounding of ages to 6 digits
AgeOrd(a) == IF Round(a) = "1" THEN 1 ELSE 2
IdsIn(t) == {t[i].id : i \in 1..Len(t)}

\* identifiers: string / non-negative integer / categorical are valid
BadIds(t, k) == \/ k = "float"                              \* floating identifiers
                \/ (k = "negint" /\ "A" \in IdsIn(t))       \* "A" is a negative integer
                \/ (k = "emptystr" /\ "A" \in IdsIn(t))     \* "A" is the empty string
                \/ (k = "nanid" /\ "A" \in IdsIn(t))        \* "A" is missing
                \/ (k = "nullint" /\ "A" \in IdsIn(t))      \* nullable integer column, "A" is missing (pd.NA)
                \/ (k = "catnan" /\ "A" \in IdsIn(t))       \* categorical column, "A" is missing
                \/ (k = "mixed" /\ IdsIn(t) = {"A", "B"})   \* "A" a string, "B" an integer
BadAge(t) == \E i \in 1..Len(t) : t[i].age \in {"nan", "inf"}
Dup(t) == \E i, j \in 1..Len(t) : i < j /\ t[i].id = t[j].id /\ Round(t[i].age) = Round(t[j].age)
InfVal(t) == \E i \in 1..Len(t) : \E f \in 1..NFeat : t[i].vals[f] = "inf"
AllNan(r) == \A f \in 1..NFeat : r.vals[f] = "nan"
Kept(t) == SelectSeq(t, LAMBDA r : ~AllNan(r))            \* rows full of missing values are dropped

Malformed(t, k, tx) == Len(t) = 0 \/ BadIds(t, k) \/ BadAge(t) \/ Dup(t) \/ tx \/ InfVal(t) \/ Len(Kept(t)) = 0

\* first appearance order of the identifiers
RECURSIVE FirstSeen(_, _)
FirstSeen(t, seen) == IF t = <<>> THEN <<>>
                      ELSE IF Head(t).id \in seen THEN FirstSeen(Tail(t), seen)
                      ELSE <<Head(t).id>> \o FirstSeen(Tail(t), seen \cup {Head(t).id})
VisitsOf(t, id) == LET mine == SelectSeq(t, LAMBDA r : r.id = id)
                       lo == SelectSeq(mine, LAMBDA r : AgeOrd(r.age) = 1)
                       hi == SelectSeq(mine, LAMBDA r : AgeOrd(r.age) = 2)
                   IN [i \in 1..(Len(lo) + Len(hi)) |->
                        LET r == IF i <= Len(lo) THEN lo[i] ELSE hi[i - Len(lo)] IN <<Round(r.age), r.vals>>]

Canon(t, k, tx) ==
   IF Malformed(t, k, tx) THEN [status |-> "data_error"]
   ELSE LET kept == Kept(t) ord == FirstSeen(kept, {}) IN
        [status |-> "ok", order |-> ord,
         visits |-> [i \in 1..Len(ord) |-> VisitsOf(kept, ord[i])],
         n_visits |-> Len(kept),
         n_obs |-> Cardinality({<<i, f>> \in (1..Len(kept)) \X (1..NFeat) : kept[i].vals[f] # "nan"})]

-----------------------------------------------------------------------------
Res == Canon(table, idkind, text)
Perms(n) == {p \in [1..n -> 1..n] : \A i, j \in 1..n : i # j => p[i] # p[j]}
Permuted(t, p) == [i \in 1..Len(t) |-> t[p[i]]]
ContentOf(c) == {<<c.order[i], c.visits[i]>> : i \in 1..Len(c.order)}

\* one entry per individual, in order of first appearance, each individual once
OneRowPerIndividual == Res.status = "ok" =>
    /\ Len(Res.order) = Cardinality(IdsIn(Kept(table))) /\ Len(Res.order) = Cardinality({Res.order[i] : i \in 1..Len(Res.order)})
\* visits sorted by age, no age twice
VisitsSorted == Res.status = "ok" => \A i \in 1..Len(Res.order) : \A a, b \in 1..Len(Res.visits[i]) :
    a < b => AgeOrd(Res.visits[i][a][1]) < AgeOrd(Res.visits[i][b][1])
\* every kept row ends up exactly once, values aligned with their age
Aligned == Res.status = "ok" => \A r \in {Kept(table)[i] : i \in 1..Len(Kept(table))} :
    \E i \in 1..Len(Res.order) : Res.order[i] = r.id /\ \E a \in 1..Len(Res.visits[i]) : Res.visits[i][a] = <<Round(r.age), r.vals>>
CountsRight == Res.status = "ok" => Res.n_visits = Len(Kept(table))
\* the per-individual content does not depend on the order of the rows
PermutationInvariant == \A p \in Perms(Len(table)) :
    LET c2 == Canon(Permuted(table, p), idkind, text) IN
    c2.status = Res.status /\ (Res.status = "ok" => ContentOf(c2) = ContentOf(Res))
\* exactly the malformed tables are rejected
RejectsExactlyMalformed == (Res.status = "data_error") <=> Malformed(table, idkind, text)
=============================================================================
