SPECIFICATION Spec
CONSTANTS
  NIters <- JointN
  BurnSpecs <- JointBurn
  Powers <- P45_1
  Anneals <- JointAnn
  LogCfgs <- SomeLogs
  Vars = {"g", "tau", "xi"}
  VarSeq <- Seq3
  Params = {"p1", "p2"}
  RandomOrders = {TRUE, FALSE}
  GuardPeriodZero = TRUE
  GuardLowT0 = TRUE
  PrintNeedsNoPath = TRUE
INVARIANT PhaseRule
INVARIANT StepIndexRule
INVARIANT BatchUpdate
INVARIANT SampledOnce
INVARIANT TempFloor
INVARIANT TempOneAfterAnnealing
INVARIANT LogExactlyWhenDue
INVARIANT AcceptedCompletes
PROPERTY Independent
PROPERTY LogReadOnly
PROPERTY TempMonotone
PROPERTY Termination
CHECK_DEADLOCK FALSE
