SPECIFICATION Spec
CONSTANTS
  Kind = "pop"
  Blocks = {1, 2}
  BlockSeq <- Seq2
  Z <- ZSet
  ALevels = {0, 1, 2}
  ULevels = {0, 1}
  L = 2
  LoNum = 1
  HiNum = 2
  Den = 5
  RandomOrder = TRUE
  MaxCalls = 3
INVARIANT OneDrawPerDecision
INVARIANT OneProposalPerDraw
INVARIANT WindowIsLastL
PROPERTY OnlyBlockTouched
PROPERTY AcceptIffBelow
PROPERTY DecisionLocal
PROPERTY RejectedIsSnapshot
PROPERTY StdOnlyAtMultiples
PROPERTY StdOneFactor
PROPERTY StdOnlyOutOfBand
CHECK_DEADLOCK FALSE
