---------------------------- MODULE Benchmarks ----------------------------
(***************************************************************************)
(* Benchmark models: the constant model's four estimators over a visit     *)
(* history, and the conditional mean of the LME random effects, both as    *)
(* exact rationals <<num, den>> on small integer cases.                    *)
(* A history is a sequence of visits [age, val] in table order (ages are   *)
(* distinct ranks, not sorted); val is a small integer or 0-1 = NaN        *)
(***************************************************************************)
EXTENDS Integers, Sequences, FiniteSets, TLC
CONSTANTS Histories, PredTypes, LmeCases
NaN == 99
VARIABLES part, hist, ptype, lme,
          reuse   \* what the same model object was used for just before: "fresh" (nothing); constant model: "swapped_columns"
                  \* (a data set with the same two features in the other column order), "other_names" (other feature names);
                  \* LME: "after_estimates" (trajectories of two other individuals and a personalization were computed first).
                  \* The expected results below do not mention it: estimators are functions of the case only.
vars == <<part, hist, ptype, lme, reuse>>
NoLme == [ages |-> <<0>>, ys |-> <<0>>, b0 |-> 0, b1 |-> 0, c11 |-> 1, c12 |-> 0, c22 |-> 1, slope |-> FALSE]
Init == \/ (part = "constant" /\ hist \in Histories /\ ptype \in PredTypes /\ lme = NoLme
            /\ reuse \in {"fresh", "swapped_columns", "other_names"})
        \/ (part = "lme" /\ lme \in LmeCases /\ hist = <<[age |-> 1, val |-> 1]>> /\ ptype = "last"
            /\ reuse \in {"fresh", "after_estimates"})
Next == UNCHANGED vars
Spec == Init /\ [][Next]_vars

\* ---- constant model ----
Known(h) == SelectSeq(h, LAMBDA v : v.val # NaN)
LatestOf(h) == CHOOSE i \in 1..Len(h) : \A j \in 1..Len(h) : h[j].age <= h[i].age
RECURSIVE SumV(_)
SumV(h) == IF h = <<>> THEN 0 ELSE Head(h).val + SumV(Tail(h))
MaxV(h) == CHOOSE m \in {h[i].val : i \in 1..Len(h)} : \A i \in 1..Len(h) : h[i].val <= m
Predict(h, t) ==
   IF t = "last" THEN (IF h[LatestOf(h)].val = NaN THEN <<0, 0>> ELSE <<h[LatestOf(h)].val, 1>>)
   ELSE IF Known(h) = <<>> THEN <<0, 0>>                          \* NaN if and only if the feature was never observed
   ELSE IF t = "last_known" THEN <<Known(h)[LatestOf(Known(h))].val, 1>>
   ELSE IF t = "max" THEN <<MaxV(Known(h)), 1>>
   ELSE <<SumV(Known(h)), Len(Known(h))>>                            \* mean
ConstantExpected == Predict(hist, ptype)
\* last_known is the last value when that one is observed; all four agree on a single observed visit
LastKnownExtendsLast == (part = "constant" /\ hist[LatestOf(hist)].val # NaN) => Predict(hist, "last_known") = Predict(hist, "last")
MeanBetween == (part = "constant" /\ Known(hist) # <<>>) =>
    LET m == Predict(hist, "mean") mx == Predict(hist, "max") IN m[1] <= mx[1] * m[2]

\* ---- LME: b = (Z'Z + C^-1)^-1 Z' r ,  r = y - (b0 + b1 a)  (ages already normalised) ----
RECURSIVE SumF(_, _)
SumF(F(_), n) == IF n = 0 THEN 0 ELSE F(n) + SumF(F, n - 1)
NObs == Len(lme.ages)
R(i) == lme.ys[i] - (lme.b0 + lme.b1 * lme.ages[i])
SumR == LET f(i) == R(i) IN SumF(f, NObs)
SumA == LET f(i) == lme.ages[i] IN SumF(f, NObs)
SumAA == LET f(i) == lme.ages[i] * lme.ages[i] IN SumF(f, NObs)
SumAR == LET f(i) == lme.ages[i] * R(i) IN SumF(f, NObs)
\* random intercept only: sum r / (n + c11)
InterceptOnly == <<SumR, NObs + lme.c11>>
\* intercept + slope (2x2 inverse)
Det == (NObs + lme.c11) * (SumAA + lme.c22) - (SumA + lme.c12) * (SumA + lme.c12)
Re0 == <<(SumAA + lme.c22) * SumR - (SumA + lme.c12) * SumAR, Det>>
Re1 == <<(NObs + lme.c11) * SumAR - (SumA + lme.c12) * SumR, Det>>
LmeExpected == IF lme.slope THEN <<Re0, Re1>> ELSE <<InterceptOnly, <<0, 1>>>>
\* shrinkage: with an infinitely tight prior the effect vanishes; here: |sum r| >= |b| (n + c) numerically implied by c >= 0
Shrinks == (part = "lme" /\ ~lme.slope) => (InterceptOnly[2] >= NObs)
=============================================================================
