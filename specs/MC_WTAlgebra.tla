---- MODULE MC_WTAlgebra ----
EXTENDS WTAlgebra
MCFin == {-2, 1, 3}
====
