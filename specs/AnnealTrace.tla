---------------------------- MODULE AnnealTrace ----------------------------
(***************************************************************************)
(* code -> spec for the annealing scheme outside the fit algorithm         *)
(* (sampling-based personalization shares AlgoWithAnnealingMixin): one     *)
(* record per run = the parameters of AnnealInd.tla / Saem.tla (number of  *)
(* iterations n, annealing iterations nann, plateaus p, initial            *)
(* temperature tnum / tden) and the temperature the samplers were actually *)
(* given at every iteration, as a rational over the specification's        *)
(* denominator.  Expected: iteration i is sampled at the temperature       *)
(* reached after i - 1 iterations, TempAt(floor(min(i - 1, nann) / period))*)
(* with period = floor(nann / (p - 1)) - the closed form that AnnealInd    *)
(* proves for arbitrary parameters and Saem.tla's DecrementsClosedForm     *)
(* checks on the fit.                                                      *)
(***************************************************************************)
EXTENDS Integers, Sequences, Json, IOUtils, TLC
TLog == ndJsonDeserialize(IOEnv.TRACE_FILE)
VARIABLE k
TInit == k \in 1..Len(TLog)
TNext == UNCHANGED k
TSpec == TInit /\ [][TNext]_k
Rec == TLog[k]
Min(a, b) == IF a < b THEN a ELSE b
Period == Rec.nann \div (Rec.p - 1)
J(i) == Min(i, Rec.nann) \div Period
Num(jj) == Rec.tnum * (Rec.p - 1) - jj * (Rec.tnum - Rec.tden)
Den == Rec.tden * (Rec.p - 1)
TempAfter(i) == IF J(i) >= Rec.p - 1 \/ Num(J(i)) <= Den THEN <<Den, Den>> ELSE <<Num(J(i)), Den>>
Accepted == Rec.p >= 2 /\ Period >= 1 /\ Rec.tnum > Rec.tden
Conforms == Accepted =>
   /\ Rec.status = "ok"
   /\ Len(Rec.used) = Rec.n                                  \* every iteration sampled once
   /\ \A i \in 1..Len(Rec.used) : /\ Rec.used[i].den = Den /\ Rec.used[i].close
                                  /\ Rec.used[i].num = TempAfter(i - 1)[1]
   /\ Rec.final.den = Den /\ Rec.final.close /\ Rec.final.num = TempAfter(Rec.n)[1]     \* and where the run ends
=============================================================================
