SPECIFICATION Spec
CONSTANTS
  Ids = {"8", "9", "10", "11"}
  DataVals = {"d0", "d1", "dbad"}
  MaxN = 3
  WorkerCounts = {2, 3}
INVARIANT OwnOnly
INVARIANT OwnOnlyWithDraws
INVARIANT Equivariant
INVARIANT OutputOrderFollowsInput
