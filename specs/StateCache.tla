---------------------------- MODULE StateCache ----------------------------
(***************************************************************************)
(* Lazily cached variable graph with auto-fork / revert / clone.           *)
(* Models leaspy.variables.state.State (one action per public method).     *)
(*                                                                         *)
(* Values are uniformly tagged tuples:                                     *)
(*   NONE = <<>>            unset / not cached                             *)
(*   <<"s", b>>             finite base scalar                             *)
(*   <<"nan">>, <<"inf">>   non-finite scalars                             *)
(*   <<"t", n, env>>        value of derived node n computed from env      *)
(*   <<"i", f>>             value carrying the individual axis, f: Inds -> *)
(* A derived value is the *term* recording which parent values were used,  *)
(* so staleness is visible as inequality with the from-scratch evaluation. *)
(***************************************************************************)
EXTENDS Naturals, Integers, FiniteSets, Sequences, TLC

CONSTANTS Nodes,        \* all graph nodes (strings)
          Parents,      \* [Nodes -> SUBSET Nodes]
          Order,        \* topological order used by the implementation (sequence over Nodes)
          Settable,     \* independent nodes that may be assigned
          Hyper,        \* independent nodes with a fixed value (not settable)
          IndAxis,      \* nodes whose value carries the individual axis
          Inds,         \* individuals
          Base,         \* finite base scalars (small naturals)
          NonFin,       \* subset of {"nan","inf"} allowed as assigned scalars
          Objs,         \* object identifiers, e.g. {1,2}; object 1 is live initially
          Modes,        \* subset of {"none","ref","copy"}  ("ref" and "copy" take the same forks; they differ in what the
                        \* ENVIRONMENT may do: under "copy" the caller may overwrite in place the buffers of values it assigned
                        \* earlier - a stuttering step here, performed by the replay after every assignment in that mode -
                        \* under "ref" it must not)
          MaxOps,
          Mk(_, _),     \* value constructor of a derived entry: Mk(n, env); MkTerm (terms) or MkSet (set/unset only)
          FixStaleFork, \* TRUE: an assignment made without auto-fork drops the held fork
          SelectRevert  \* TRUE: partial revert selects entries; FALSE: arithmetic blend old*m + cur*~m

VARIABLES obj,    \* [Objs -> [live, vals, fork, mode]]
          err,    \* outcome of the last operation: "-" | "ok" | "input_error" | "no_fork"
          last,   \* <<operation, object, node>> of the last operation (observation only)
          args    \* arguments of the last operation (observation only; hidden by the VIEW in exhaustive runs)

vars == <<obj, err, last, args>>
View == <<obj, err, last>>

NONE == <<>>
NAN  == <<"nan">>
INF  == <<"inf">>
Sc(b) == <<"s", b>>
NoNode == "-"

Indep == {n \in Nodes : Parents[n] = {}}
Children(n) == {m \in Nodes : n \in Parents[m]}
RECURSIVE DescR(_)
DescR(n) == LET c == Children(n) IN c \cup UNION {DescR(m) : m \in c}
RECURSIVE AncR(_)
AncR(n) == Parents[n] \cup UNION {AncR(p) : p \in Parents[n]}
\* closures as constant functions (evaluated once by TLC)
DescF == [n \in Nodes |-> DescR(n)]
AncF == [n \in Nodes |-> AncR(n)]
Desc(n) == DescF[n]
Anc(n) == AncF[n]

HyperVal(n) == Sc(0)
MkTerm(n, env) == <<"t", n, env>>     \* the term records which parent values were used
MkSet(n, env) == Sc(0)                \* abstraction used for trace validation on big graphs: set / unset only

Scalars == {Sc(b) : b \in Base} \cup {<<x>> : x \in NonFin}
IndepVals(n) == IF n \in IndAxis THEN {<<"i", f>> : f \in [Inds -> Scalars]} ELSE Scalars

RECURSIVE NonFinite(_)
NonFinite(t) == IF t = NONE THEN FALSE
                ELSE IF t[1] \in {"nan", "inf"} THEN TRUE
                ELSE IF t[1] = "s" THEN FALSE
                ELSE IF t[1] = "i" THEN \E i \in DOMAIN t[2] : NonFinite(t[2][i])
                ELSE \E k \in DOMAIN t[3] : NonFinite(t[3][k])

AddS(x, y) == IF x = NAN \/ y = NAN THEN NAN
              ELSE IF x = INF \/ y = INF THEN INF
              ELSE Sc(x[2] + y[2])

At(v, n, i) == IF n \in IndAxis THEN v[2][i] ELSE v
Term(n, env) ==
   IF n \in IndAxis
     THEN <<"i", [i \in Inds |-> Mk(n, [p \in Parents[n] |-> At(env[p], p, i)])]>>
     ELSE Mk(n, [p \in Parents[n] |-> env[p]])

\* from-scratch evaluation on given independent values
RECURSIVE Eval(_, _)
Eval(n, iv) == IF Parents[n] = {} THEN iv[n]
               ELSE LET env == [p \in Parents[n] |-> Eval(p, iv)]
                    IN IF \E p \in Parents[n] : env[p] = NONE THEN NONE ELSE Term(n, env)

IndepOf(v) == [n \in Indep |-> v[n]]

Cleared == [n \in Nodes |-> IF n \in Hyper THEN HyperVal(n) ELSE NONE]
Dead == [live |-> FALSE, vals |-> Cleared, fork |-> NONE, mode |-> "none"]

Init == /\ \E m \in Modes : obj = [o \in Objs |-> IF o = 1 THEN [live |-> TRUE, vals |-> Cleared, fork |-> NONE, mode |-> m] ELSE Dead]
        /\ err = "-"
        /\ last = <<"Init", 1, NoNode>> /\ args = <<>>

Live(o) == obj[o].live

-----------------------------------------------------------------------------
\* auto_fork context manager / attribute
SetMode(o, m) ==
   /\ Live(o) /\ m # obj[o].mode
   /\ obj' = [obj EXCEPT ![o].mode = m]
   /\ err' = "-" /\ last' = <<"SetMode", o, NoNode>> /\ args' = <<m>>

\* State(dag, auto_fork_type=m): a new object (only used by the trace specification; Clone covers it otherwise)
New(o, m) ==
   /\ obj' = [obj EXCEPT ![o] = [live |-> TRUE, vals |-> Cleared, fork |-> NONE, mode |-> m]]
   /\ err' = "-" /\ last' = <<"New", o, NoNode>> /\ args' = <<m>>

\* __setitem__ (v may be NONE: un-setting a variable)
AssignVals(vals, n, v) == [k \in Nodes |-> IF k = n THEN v ELSE IF k \in Desc(n) THEN NONE ELSE vals[k]]
AssignFork(rec, n) == IF rec.mode # "none" THEN [k \in ({n} \cup Desc(n)) |-> rec.vals[k]]
                      ELSE IF FixStaleFork THEN NONE ELSE rec.fork
DoAssign(o, n, v) == obj' = [obj EXCEPT ![o].fork = AssignFork(obj[o], n), ![o].vals = AssignVals(obj[o].vals, n, v)]

Assign(o, n, v) ==
   /\ Live(o) /\ n \in Settable
   /\ DoAssign(o, n, v)
   /\ err' = "-" /\ last' = <<"Assign", o, n>> /\ args' = <<v>>

\* put(name, value, indices=(i,), accumulate=acc) on a variable carrying the individual axis,
\* put(name, value, indices=(), accumulate=acc) otherwise.  Reads the variable first unless plain assignment.
Put(o, n, i, x, acc) ==
   /\ Live(o) /\ n \in Settable
   /\ LET cur == obj[o].vals[n]
          plain == (n \notin IndAxis) /\ ~acc
      IN IF cur = NONE /\ ~plain
           THEN /\ err' = "input_error" /\ UNCHANGED obj
           ELSE LET new == IF n \in IndAxis
                             THEN <<"i", [cur[2] EXCEPT ![i] = IF acc THEN AddS(@, x) ELSE x]>>
                             ELSE IF acc THEN AddS(cur, x) ELSE x
                IN /\ DoAssign(o, n, new) /\ err' = "-"
   /\ last' = <<"Put", o, n>> /\ args' = <<i, x, acc>>

\* sequential filling as the implementation does it: stop at the first unset independent node
RECURSIVE FillSeq(_, _)
FillSeq(c, seq) ==   \* returns <<cache, ok>>
   IF seq = <<>> THEN <<c, TRUE>>
   ELSE LET k == Head(seq) IN
        IF c[k] # NONE THEN FillSeq(c, Tail(seq))
        ELSE IF Parents[k] = {} THEN <<c, FALSE>>
        ELSE FillSeq([c EXCEPT ![k] = Term(k, [p \in Parents[k] |-> c[p]])], Tail(seq))

SeqOf(S) == SelectSeq(Order, LAMBDA k : k \in S)

\* __getitem__
Read(o, n) ==
   /\ Live(o)
   /\ IF obj[o].vals[n] # NONE
        THEN /\ err' = "ok" /\ UNCHANGED obj
        ELSE LET r == FillSeq(obj[o].vals, SeqOf(Anc(n))) IN
             IF ~r[2] \/ Parents[n] = {}
               THEN /\ err' = "input_error" /\ obj' = [obj EXCEPT ![o].vals = r[1]]
               ELSE /\ err' = "ok"
                    /\ obj' = [obj EXCEPT ![o].vals = [r[1] EXCEPT ![n] = Term(n, [p \in Parents[n] |-> r[1][p]])]]
   /\ last' = <<"Read", o, n>> /\ args' = <<>>

PrecomputeAll(o) ==
   /\ Live(o)
   /\ LET r == FillSeq(obj[o].vals, Order) IN
      /\ obj' = [obj EXCEPT ![o].vals = r[1]]
      /\ err' = IF r[2] THEN "ok" ELSE "input_error"
   /\ last' = <<"PrecomputeAll", o, NoNode>> /\ args' = <<>>

Override(vals, fork) == [k \in Nodes |-> IF k \in DOMAIN fork THEN fork[k] ELSE vals[k]]

RevertFull(o) ==
   /\ Live(o)
   /\ IF obj[o].fork = NONE
        THEN /\ err' = "no_fork" /\ UNCHANGED obj
        ELSE /\ obj' = [obj EXCEPT ![o].vals = Override(obj[o].vals, obj[o].fork), ![o].fork = NONE]
             /\ err' = "-"
   /\ last' = <<"RevertFull", o, NoNode>> /\ args' = <<>>

Blend(old, cur, rev) ==  \* one individual's entry
   IF SelectRevert THEN (IF rev THEN old ELSE cur)
   ELSE IF rev THEN (IF NonFinite(cur) THEN NAN ELSE old)
        ELSE (IF NonFinite(old) THEN NAN ELSE cur)

\* documented precondition: every fork entry set on both sides carries the individual axis
PartialOK(rec) == rec.fork # NONE /\ \A k \in DOMAIN rec.fork : (rec.fork[k] # NONE /\ rec.vals[k] # NONE) => k \in IndAxis

RevertPartial(o, mask) ==  \* mask: [Inds -> BOOLEAN], TRUE = revert that individual
   /\ Live(o)
   /\ IF obj[o].fork = NONE
        THEN /\ err' = "no_fork" /\ UNCHANGED obj            \* nothing to revert from: refused, as for the full revert
        ELSE /\ PartialOK(obj[o])
             /\ LET f == obj[o].fork  v == obj[o].vals IN
                obj' = [obj EXCEPT ![o].fork = NONE,
                                   ![o].vals = [k \in Nodes |->
                                       IF k \notin DOMAIN f THEN v[k]
                                       ELSE IF f[k] = NONE \/ v[k] = NONE THEN NONE
                                       ELSE <<"i", [i \in Inds |-> Blend(f[k][2][i], v[k][2][i], mask[i])]>>]]
             /\ err' = "-"
   /\ last' = <<"RevertPartial", o, NoNode>> /\ args' = <<mask>>

Clone(src, dst, disable, keep) ==
   /\ Live(src) /\ dst # src
   /\ obj' = [obj EXCEPT ![dst] = [live |-> TRUE, vals |-> obj[src].vals,
                                    fork |-> IF keep THEN obj[src].fork ELSE NONE,
                                    mode |-> IF disable THEN "none" ELSE obj[src].mode]]
   /\ err' = "-" /\ last' = <<"Clone", dst, NoNode>> /\ args' = <<src, disable, keep>>

Clear(o) ==
   /\ Live(o)
   /\ obj' = [obj EXCEPT ![o].vals = Cleared, ![o].fork = NONE]
   /\ err' = "-" /\ last' = <<"Clear", o, NoNode>> /\ args' = <<>>

-----------------------------------------------------------------------------
\* named top-level actions (so that TLC prints action labels)
ASetMode == \E o \in Objs, m \in Modes : SetMode(o, m)
AAssign  == \E o \in Objs, n \in Settable : \E v \in IndepVals(n) \cup {NONE} : Assign(o, n, v)
APut     == \E o \in Objs, n \in Settable, i \in Inds, x \in Scalars, acc \in BOOLEAN : Put(o, n, i, x, acc)
ARead    == \E o \in Objs, n \in Nodes : Read(o, n)
APrecompute == \E o \in Objs : PrecomputeAll(o)
ARevertFull == \E o \in Objs : RevertFull(o)
ARevertPartial == \E o \in Objs, mask \in [Inds -> BOOLEAN] : RevertPartial(o, mask)
AClone   == \E s \in Objs, d \in Objs, dis \in BOOLEAN, keep \in BOOLEAN : Clone(s, d, dis, keep)
AClear   == \E o \in Objs : Clear(o)

Next == ASetMode \/ AAssign \/ APut \/ ARead \/ APrecompute \/ ARevertFull \/ ARevertPartial \/ AClone \/ AClear

Spec == Init /\ [][Next]_vars

Bounded == TLCGet("level") <= MaxOps

-----------------------------------------------------------------------------
\* C01: every cached value equals the from-scratch evaluation on the current independent values
FreshVals(v) == \A n \in Nodes : v[n] # NONE => v[n] = Eval(n, IndepOf(v))
Fresh == \A o \in Objs : Live(o) => FreshVals(obj[o].vals)

\* C01: a read answers with the from-scratch value, or reports an input error exactly when an unset
\*      independent value is needed
ReadTotal == last[1] = "Read" =>
   LET v == obj[last[2]].vals  n == last[3] IN
   /\ err \in {"ok", "input_error"}
   /\ err = "ok" => (v[n] # NONE /\ v[n] = Eval(n, IndepOf(v)))
   /\ err = "input_error" => Eval(n, IndepOf(v)) = NONE

\* C02: the held fork, laid over the current values, is a consistent state (what a revert would produce)
ForkFresh == \A o \in Objs : (Live(o) /\ obj[o].fork # NONE) => FreshVals(Override(obj[o].vals, obj[o].fork))

\* C02: a forking assignment remembers exactly the pre-assignment state
ForkRestores == [][ \A o \in Objs : (last'[1] \in {"Assign", "Put"} /\ last'[2] = o /\ err' = "-" /\ obj[o].mode # "none")
                       => Override(obj'[o].vals, obj'[o].fork) = obj[o].vals ]_vars

\* C02: a full revert restores the fork and nothing else; afterwards no fork is held
RevertFullExact == [][ \A o \in Objs : (last'[1] = "RevertFull" /\ last'[2] = o /\ err' = "-")
                       => (obj'[o].vals = Override(obj[o].vals, obj[o].fork) /\ obj'[o].fork = NONE) ]_vars

\* C02: a per-individual revert gives, entry by entry, the old value where reverted and the current one elsewhere
PartialRevertExact == [][ \A o \in Objs : (last'[1] = "RevertPartial" /\ last'[2] = o /\ err' = "-") =>
     \E mask \in [Inds -> BOOLEAN] : \A k \in DOMAIN obj[o].fork :
        IF obj[o].fork[k] = NONE \/ obj[o].vals[k] = NONE THEN obj'[o].vals[k] = NONE
        ELSE \A i \in Inds :
               obj'[o].vals[k][2][i] = IF mask[i] THEN obj[o].fork[k][2][i] ELSE obj[o].vals[k][2][i] ]_vars

\* C13: objects are isolated: an operation on one object never changes another one
CloneIsolation == [][ \A o \in Objs : (last'[2] # o) => obj'[o] = obj[o] ]_vars
=============================================================================
