SPECIFICATION Spec
CONSTANTS
  Base <- MCBase
  Ops <- MCOps
  MaxLen = 2
INVARIANT Wellformed
INVARIANT OrderKept
INVARIANT RevInvolution
INVARIANT RequestOrder
