---------------------------- MODULE IndParamsTrace ----------------------------
EXTENDS IndParams, Json, IOUtils, SequencesExt
Log == ndJsonDeserialize(IOEnv.TRACE_FILE)
VARIABLE k
TInit == /\ k \in 1..Len(Log) /\ ids = Log[k].ids /\ path = Log[k].path
         /\ params = {[name |-> Log[k].decls[i].name, shape |-> Log[k].decls[i].shape] : i \in 1..Len(Log[k].decls)}
TNext == UNCHANGED <<k, vars>>
TSpec == TInit /\ [][TNext]_<<k, vars>>
Rec == Log[k]
Conforms == LET e == Expected(params, path) IN
   /\ Rec.status = e.status
   /\ e.status = "ok" => /\ {[name |-> Rec.out[i].name, shape |-> Rec.out[i].shape] : i \in 1..Len(Rec.out)} = e.decls
                          /\ Rec.ids_out = ids          \* identifiers: strings, same order
                          /\ Rec.values_ok              \* values equal (single precision through tensors)
                          /\ Rec.chain_ok               \* the converted container, turned into tensors, still files every row under its identifier
\* additions that must be refused are refused with the container's input error, valid ones accepted
\* (checked on the freshly built container and again on the container obtained through the conversion path)
AddRules == Rec.adds_ok /\ (Rec.status = "ok" => Rec.adds_after_ok)
Covered == IOEnv.EXPECT_COUNT = "0" \/ Cardinality({<<Log[i].ids, Log[i].decls, Log[i].path>> : i \in 1..Len(Log)}) = atoi(IOEnv.EXPECT_COUNT)
=============================================================================
