SPECIFICATION Spec
CONSTANTS
  NIters <- AnnealN
  BurnSpecs <- HalfBurn
  Powers <- P45
  Anneals <- AnnealSet
  LogCfgs <- NoLogSet
  Vars = {"g", "xi"}
  VarSeq <- Seq2
  Params = {"p1"}
  RandomOrders = {FALSE}
  GuardPeriodZero = TRUE
  GuardLowT0 = TRUE
  PrintNeedsNoPath = TRUE
INVARIANT TempStart
INVARIANT TempFloor
INVARIANT TempOneAfterAnnealing
INVARIANT NoAnnealingIsOne
INVARIANT DecrementsClosedForm
INVARIANT AcceptedCompletes
PROPERTY TempMonotone
PROPERTY TempOnlyAtBoundaries
PROPERTY Termination
CHECK_DEADLOCK FALSE
