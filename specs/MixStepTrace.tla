---------------------------- MODULE MixStepTrace ----------------------------
(* code -> spec: parameters produced by the real mixture update rules on each enumerated case must be the closed forms. *)
EXTENDS MixStep, Json, IOUtils
Log == ndJsonDeserialize(IOEnv.TRACE_FILE)
VARIABLE k
TInit == k \in 1..Len(Log) /\ xs = Log[k].xs /\ ws = Log[k].ws /\ mold = Log[k].mold /\ burn = Log[k].burn /\ far = Log[k].far
TNext == UNCHANGED <<k, vars>>
TSpec == TInit /\ [][TNext]_<<k, vars>>
Rec == Log[k]
\* the driver reports each result as the integer numerator over the specification's denominator (and whether the float was
\* within tolerance of that rational)
Same(obs, exp) == obs.den = exp[2] /\ obs.num = exp[1] /\ obs.close
Neg(r) == <<-r[1], r[2]>>
Conforms == Admissible =>
   /\ Rec.status = "ok"
   /\ \A c \in Clusters :
        /\ Same(Rec.probs[c], ProbRule(c))
        /\ Same(Rec.mean[c], MeanRule(c))
        /\ Same(Rec.var[c], VarRule(c))
        \* a vector-valued individual variable (two components: the values and their opposites), one mean per component and cluster
        /\ Same(Rec.mean_vec[1][c], MeanRule(c))
        /\ Same(Rec.mean_vec[2][c], Neg(MeanRule(c)))
Covered == IOEnv.EXPECT_COUNT = "0" \/ Cardinality({<<Log[i].xs, Log[i].ws, Log[i].mold, Log[i].burn, Log[i].far>> : i \in 1..Len(Log)}) = atoi(IOEnv.EXPECT_COUNT)
=============================================================================
