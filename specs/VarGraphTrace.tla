---------------------------- MODULE VarGraphTrace ----------------------------
(***************************************************************************)
(* Code -> spec: results of the real VariablesDAG constructor, recorded as *)
(* ndjson lines {par, cls, order, anc, desc}, must equal Build(par).       *)
(* One TLC initial state per line, so the lines are checked in parallel.   *)
(***************************************************************************)
EXTENDS VarGraph, Json, IOUtils

Log == ndJsonDeserialize(IOEnv.TRACE_FILE)
VARIABLE k
TInit == k \in 1..Len(Log) /\ par = [n \in 1..Len(Log[k].par) |-> ToSet(Log[k].par[n])]
TNext == UNCHANGED <<k, par>>
TSpec == TInit /\ [][TNext]_<<k, par>>

Rec == Log[k]
Conforms ==
  LET R == Build(par) IN
  /\ Rec.cls = ClassOf(R.status)
  /\ R.status = "ok" => /\ Rec.order = R.order
                         /\ \A n \in NodesOf(par) : Rec.anc[n] = R.anc[n] /\ Rec.desc[n] = R.desc[n]
\* the reference properties also hold on every recorded declaration
RefHolds == RejectExactlyP(par) /\ TopoOrderP(par) /\ ClosureExactP(par)

\* for exhaustive logs: the log covers the whole space of declarations over ExpectN nodes
Covered == LET n == IOEnv.EXPECT_N IN
   n = "0" \/ Cardinality({Log[i].par : i \in {j \in 1..Len(Log) : Len(Log[j].par) = atoi(n)}}) = atoi(IOEnv.EXPECT_COUNT)
=============================================================================
