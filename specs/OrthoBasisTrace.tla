---------------------------- MODULE OrthoBasisTrace ----------------------------
EXTENDS OrthoBasis, Json, IOUtils, Sequences, FiniteSets
TLog == ndJsonDeserialize(IOEnv.TRACE_FILE)
VARIABLE k
TInit == k \in 1..Len(TLog) /\ n = TLog[k].n /\ metric = TLog[k].metric /\ strip = TLog[k].strip
TNext == UNCHANGED <<k, vars>>
TSpec == TInit /\ [][TNext]_<<k, vars>>
Rec == TLog[k]
Conforms == /\ Rec.status = "ok"
            /\ Rec.rows = n /\ Rec.cols = n - 1          \* n x (n - 1)
            /\ Rec.orthonormal                            \* B' B = identity
            /\ Rec.orthogonal_to_Gd                       \* B' (G d) = 0
Covered == Cardinality({<<TLog[i].n, TLog[i].metric, TLog[i].strip>> : i \in 1..Len(TLog)}) = atoi(IOEnv.EXPECT_COUNT)
=============================================================================
