---------------------------- MODULE SaemTrace ----------------------------
(***************************************************************************)
(* Trace validation of real MCMC-SAEM runs against Saem.tla.               *)
(* Events (ndjson, several runs per file):                                 *)
(*   RunStart  cfg + outcome ("run" | "refused") + resolved nb / nA        *)
(*   Sampled   k, order                                                    *)
(*   Maximized k, memoryless, m, consistent, burn_flag, steps, same_stats, *)
(*             noise_rule, probs_rule, mix_rule                             *)
(*   Cooled    k, tnum, tden, close, is_one                                *)
(*   Logged    k, emitted, mutated, rng_moved                              *)
(*   RunEnd    outcome ("done" | "crashed"), pop_at_mode                   *)
(***************************************************************************)
EXTENDS Saem, Json, IOUtils, SequencesExt

TraceLog == ndJsonDeserialize(IOEnv.TRACE_FILE)
VARIABLE l
tvars == <<vars, l>>
Ev == TraceLog[l]
IsEvent(name) == l <= Len(TraceLog) /\ Ev.op = name /\ l' = l + 1

Spec2(x) == <<x[1], x[2]>>                     \* JSON arrays ["count", 3] -> <<"count", 3>>
CfgOf(e) == [n |-> e.n, burn |-> Spec2(e.burn), pw |-> Spec2(e.pw),
             ann |-> IF e.ann_on THEN <<"on", Spec2(e.ann_spec), e.ann_p, Spec2(e.ann_t0)>> ELSE <<"off">>,
             log |-> [on |-> e.log_on, print |-> e.log_print, save |-> e.log_save, plot |-> e.log_plot,
                      patients |-> e.log_patients, path |-> e.log_path, dir |-> e.log_dir, overwrite |-> e.log_overwrite],
             rnd |-> e.rnd]

\* a run starts: the constructor / run start accepts or refuses exactly as the specification says,
\* and resolves burn-in and annealing lengths as the specification does
TRunStart ==
   /\ IsEvent("RunStart")
   /\ LET c == CfgOf(Ev) IN
      /\ cfg' = c
      /\ (Ev.outcome = "refused") = Refused(c)
      /\ st' = IF Refused(c) THEN "refused" ELSE "run"
      /\ (~Refused(c)) => (Ev.nb = NBurn(c) /\ (AnnOn(c) => Ev.na = NAnn(c)))
   /\ k' = 0 /\ phase' = "idle" /\ order' = <<>> /\ mem' = <<"none">> /\ j' = 0
   /\ ver' = [p \in Params |-> 0] /\ reads' = [p \in Params |-> [q \in Params |-> 0]] /\ emitted' = {}

TSampled == /\ IsEvent("Sampled") /\ SampleAll(Ev.order)
            /\ k' = Ev.k

\* steps: sequence of <<"c", p>> (update of p computed) and <<"a", p>> (p assigned): all computes precede all assigns,
\* every parameter is computed once and assigned once
BatchOK(steps) ==
   /\ \A a, b \in 1..Len(steps) : (steps[a][1] = "a" /\ steps[b][1] = "c") => b < a
   /\ \A p \in Params : Cardinality({a \in 1..Len(steps) : steps[a] = <<"c", p>>}) = 1
                       /\ Cardinality({a \in 1..Len(steps) : steps[a] = <<"a", p>>}) = 1
   /\ Len(steps) = 2 * Cardinality(Params)

TMaximized == /\ IsEvent("Maximized") /\ Maximize /\ Ev.k = k
              \* "amb": the new statistics equal the previous ones, both rules coincide (not observable)
              /\ Ev.memoryless = "amb" \/ ((Ev.memoryless = "yes") = (mem' = <<"memoryless">>))
              \* m = -1: no component moved enough for the step index to be observable
              /\ (mem'[1] = "avg" /\ Ev.memoryless = "no") => (Ev.m = -1 \/ (Ev.m = mem'[2] /\ Ev.consistent))
              /\ Ev.burn_flag = (k <= NBurn(cfg))
              /\ Ev.same_stats                                  \* the maximization used the algorithm's statistics
              \* closed forms of MStep.tla evaluated by the recorder on the statistics IN FORCE and the data mask:
              \* the noise level is the RMS residual over observed entries (globally / per feature), the mixture
              \* probabilities are the mean cluster responsibilities and sum to one ("na" when the model has neither)
              \* (judged by the check of C04 only: IOEnv.CLOSED_FORMS = "1")
              /\ (IOEnv.CLOSED_FORMS = "1") => (Ev.noise_rule \in {"ok", "na"} /\ Ev.probs_rule \in {"ok", "na"} /\ Ev.mix_rule \in {"ok", "na"})
              /\ BatchOK([a \in 1..Len(Ev.steps) |-> Spec2(Ev.steps[a])])

TCooled == /\ IsEvent("Cooled") /\ Cool /\ st' = "run" /\ Ev.k = k
           /\ Eq(<<Ev.tnum, Ev.tden>>, TempAt(cfg, j')) /\ Ev.close
           /\ Ev.is_one = (TempAt(cfg, j') = One)

TLogged == /\ IsEvent("Logged") /\ Log /\ st' = "run" /\ Ev.k = k
           /\ ToSet(Ev.emitted) = emitted'
           /\ ~Ev.mutated /\ ~Ev.rng_moved

TRunEndDone == /\ IsEvent("RunEnd") /\ Ev.outcome = "done" /\ Finish
               /\ Ev.pop_at_mode            \* C12: population variables sit at the modes of their priors
               /\ Ev.same_as_baseline       \* C11: parameters bit-identical to the run of the same seed without logging
\* a crash is only explainable if the specification can crash at this point (never, in the intended design)
TRunEndCrash == /\ IsEvent("RunEnd") /\ Ev.outcome = "crashed"
                /\ (Cool \/ Log) /\ st' = "crashed"

TraceInit == /\ cfg = [n |-> 0] /\ st = "none" /\ k = 0 /\ phase = "idle" /\ order = <<>> /\ mem = <<"none">> /\ j = 0
             /\ ver = [p \in Params |-> 0] /\ reads = [p \in Params |-> [q \in Params |-> 0]] /\ emitted = {} /\ l = 1
TraceNext == TRunStart \/ TSampled \/ TMaximized \/ TCooled \/ TLogged \/ TRunEndDone \/ TRunEndCrash
TraceSpec == TraceInit /\ [][TraceNext]_tvars

Report == IF TLCGet("stats").diameter - 1 = Len(TraceLog) THEN TRUE
          ELSE PrintT(<<"REJECTED-AT", TLCGet("stats").diameter, Len(TraceLog)>>) /\ FALSE
=============================================================================
