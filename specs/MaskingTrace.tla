---------------------------- MODULE MaskingTrace ----------------------------
(* code -> spec: (1) results of real WeightedTensor operations on enumerated vectors must equal the algebra of Masking.tla; *)
(* (2) twin-dataset scenarios on real models: every recorded observable must be equal between the twins (NonInterference).   *)
EXTENDS Masking, Json, IOUtils
Log == ndJsonDeserialize(IOEnv.TRACE_FILE)
VARIABLE k
TInit == /\ k \in 1..Len(Log)
         /\ IF Log[k].type = "vector"
              THEN /\ y = Log[k].v /\ w = Log[k].w /\ t = Log[k].c /\ y2 = Log[k].v /\ t2 = Log[k].c
              ELSE /\ y = <<>> /\ w = <<>> /\ t = <<>> /\ y2 = <<>> /\ t2 = <<>>
TNext == UNCHANGED <<k, vars>>
TSpec == TInit /\ [][TNext]_<<k, vars>>
Rec == Log[k]
VectorConforms == Rec.type = "vector" =>
   /\ Rec.filled = Filled(y, w, 5)                      \* filled(5)
   /\ Rec.weighted_value = WeightedValue(y, w)
   /\ <<Rec.wsum, Rec.wcount>> = WSum(y, w, 7)          \* wsum(fill_value=7)
   /\ Rec.prod_weighted = WeightedValue(MulBy(y, w, t)[1], w) /\ Rec.prod_weight = w
   /\ Rec.weight_dtype \in {"bool", "int", "float"}
ScenarioConforms == Rec.type = "scenario" =>
   /\ Rec.status = "ok"
   /\ Rec.attach_equal /\ Rec.stats_equal /\ Rec.counts_equal /\ Rec.params_equal
   /\ Rec.traj_equal /\ Rec.perso_equal /\ Rec.noise_is_observed_rmse /\ Rec.all_finite
   /\ Rec.attach_is_observed_sum       \* the attachment is the sum of the entry-wise terms over observed entries only
Covered == IOEnv.EXPECT_COUNT = "0" \/ Cardinality({<<Log[i].v, Log[i].w, Log[i].c, Log[i].weight_dtype>> : i \in {j \in 1..Len(Log) : Log[j].type = "vector"}}) = atoi(IOEnv.EXPECT_COUNT)
=============================================================================
