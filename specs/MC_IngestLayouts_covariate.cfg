SPECIFICATION Spec
CONSTANTS
  Layout = "covariate"
  Ids = {"a", "b"}
  ETs = {"none"}
  EBs = {0}
  Covs = {"0", "1", "nan", "half"}
  Ages = {1, 2, 3}
  MaxRows = 3
  Family = "all"
  RequireAnEvent = TRUE
  RequireTwoCovValues = TRUE
INVARIANT PermutationInvariant
INVARIANT OnePerIndividual
INVARIANT AcceptedIsConsistent
