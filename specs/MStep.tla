---------------------------- MODULE MStep ----------------------------
(***************************************************************************)
(* Closed-form maximization rules of the model parameters                  *)
(* (leaspy.variables.specs.ModelParameter.for_*, variables/utilities.py,   *)
(* obs_models/_gaussian.py), evaluated exactly on small integer cases.     *)
(* Rationals are pairs <<num, den>> with the denominators fixed below.     *)
(* A case:                                                                 *)
(*   xs     latent values of the individuals (integers)                    *)
(*   mold   the prior mean held BEFORE the step (integer)                  *)
(*   burn   memory-less phase?                                             *)
(*   cells  observation cells: "a" (observed, residual^2 = 1),             *)
(*          "b" (observed, residual^2 = 4), "m" (missing: the model value  *)
(*          there is 2, the stored observation is arbitrary)               *)
(*          indexed by <<individual, visit, feature>>                      *)
(***************************************************************************)
EXTENDS Integers, Sequences, FiniteSets, TLC

CONSTANTS Xs,        \* set of sequences of latent values
          MOlds, Burns,
          CellGrids  \* set of functions [Cells -> {"a","b","m"}]
VARIABLES xs, mold, burn, cells
vars == <<xs, mold, burn, cells>>
Init == xs \in Xs /\ mold \in MOlds /\ burn \in Burns /\ cells \in CellGrids
Next == UNCHANGED vars
Spec == Init /\ [][Next]_vars

RECURSIVE SumSeq(_)
SumSeq(s) == IF s = <<>> THEN 0 ELSE Head(s) + SumSeq(Tail(s))
N == Len(xs)
S1 == SumSeq(xs)
S2 == SumSeq([i \in 1..N |-> xs[i] * xs[i]])

\* prior mean of an individual variable: the average latent value
MeanRule == <<S1, N>>
\* prior variance after the memory-less phase: mean(S2) - 2 mold mean(S1) + mold^2, with mold the PRE-step mean
VarRuleNormal == <<S2 - 2 * mold * S1 + N * mold * mold, N>>
\* memory-less phase: unbiased sample variance around the current mean
VarRuleBurnIn == <<N * S2 - S1 * S1, N * (N - 1)>>
VarRule == IF burn THEN VarRuleBurnIn ELSE VarRuleNormal

\* noise: mean squared residual over OBSERVED cells only (globally / per feature)
Res2(c) == IF c = "a" THEN 1 ELSE IF c = "b" THEN 4 ELSE 0
Obs(D) == {k \in D : cells[k] # "m"}
RECURSIVE SumRes(_)
SumRes(S) == IF S = {} THEN 0 ELSE LET k == CHOOSE x \in S : TRUE IN Res2(cells[k]) + SumRes(S \ {k})
Feats == {k[3] : k \in DOMAIN cells}
NoiseVarScalar == <<SumRes(Obs(DOMAIN cells)), Cardinality(Obs(DOMAIN cells))>>
NoiseVarOf(f) == LET D == {k \in DOMAIN cells : k[3] = f} IN <<SumRes(Obs(D)), Cardinality(Obs(D))>>

\* a case is admissible when every quantity is defined (and positive where a std is taken)
Admissible == /\ N >= 2 /\ VarRule[1] > 0
              /\ \A f \in Feats : NoiseVarOf(f)[2] > 0

-----------------------------------------------------------------------------
\* algebraic facts the statement mentions
Lt(a, b) == a[1] * b[2] < b[1] * a[2]
\* masked cells do not enter the noise level: changing what sits at missing cells changes nothing (they are absent of Obs)
NoiseUsesObservedOnly == NoiseVarScalar[2] = Cardinality({k \in DOMAIN cells : cells[k] # "m"})
\* the global mean squared residual is the count-weighted combination of the per-feature ones
NoiseConsistent == NoiseVarScalar[1] = SumSeq([f \in 1..Cardinality(Feats) |-> NoiseVarOf(f)[1]])
                   /\ NoiseVarScalar[2] = SumSeq([f \in 1..Cardinality(Feats) |-> NoiseVarOf(f)[2]])
\* the variance around the pre-step mean is at least the variance around the current mean (equal iff mold = mean)
VarNormalDominates == (N >= 2) => (S2 * N - S1 * S1) * 1 <= (S2 - 2 * mold * S1 + N * mold * mold) * N
=============================================================================
