SPECIFICATION Spec
CONSTANTS
  NE = 2
  Fin = {0, 1, 3}
  Sent <- AllSent
INVARIANT NonInterference
INVARIANT CountsObserved
INVARIANT NeverNonFinite
