---------------------------- MODULE Personalize ----------------------------
(***************************************************************************)
(* Personalization algorithms (leaspy.algo.personalize):                   *)
(*  - sampling-based (mean_posterior / mode_posterior): a chain of n       *)
(*    iterations, the first nb memory-less ones are dropped, the result is *)
(*    the mean, resp. per individual the draw of lowest loss               *)
(*    (attachment + regularity; first draw on ties), of the kept draws;    *)
(*  - optimisation-based (scipy_minimize): Start(x0) -> Optimise ->        *)
(*    Return(xs) with Obj(xs) <= Obj(x0).                                  *)
(* Draws are abstract: draw k of individual i is the pair <<k, i>>; losses *)
(* are abstract levels.                                                    *)
(***************************************************************************)
EXTENDS Integers, Sequences, FiniteSets, TLC
CONSTANTS NMax, Inds, Levels,
          RefuseEmpty      \* TRUE (intended): a setting whose kept set is empty is refused; FALSE as built: it crashes
VARIABLES n, nb, k, kept, loss, st, result
vars == <<n, nb, k, kept, loss, st, result>>

Init == /\ n \in 1..NMax /\ nb \in 0..NMax /\ nb <= n
        /\ k = 0 /\ kept = <<>> /\ loss = <<>> /\ result = <<>>
        /\ st = IF RefuseEmpty /\ nb >= n THEN "refused" ELSE "run"

\* one iteration: every individual variable sampled; the draw is kept iff the memory-less phase is over (k > nb)
Iterate(l) == /\ st = "run" /\ k < n /\ k' = k + 1
              /\ IF k + 1 > nb THEN kept' = Append(kept, k + 1) /\ loss' = Append(loss, l)
                 ELSE UNCHANGED <<kept, loss>>
              /\ UNCHANGED <<n, nb, st, result>>
AIterate == \E l \in [Inds -> Levels] : Iterate(l)

\* first index of the minimal loss among the kept draws, per individual
ArgminFirst(i) == CHOOSE a \in 1..Len(loss) : /\ \A b \in 1..Len(loss) : loss[a][i] <= loss[b][i]
                                               /\ \A c \in 1..(a - 1) : loss[c][i] > loss[a][i]
Finish == /\ st = "run" /\ k = n
          /\ IF kept = <<>> THEN st' = "crashed" /\ result' = <<>>
             ELSE /\ st' = "done"
                  /\ result' = [i \in Inds |-> [mode |-> kept[ArgminFirst(i)], mean_over |-> kept]]
          /\ UNCHANGED <<n, nb, k, kept, loss>>
Next == AIterate \/ Finish
Spec == Init /\ [][Next]_vars

\* exactly the draws after the memory-less phase are kept, in order
KeptExactly == st = "done" => kept = [a \in 1..(n - nb) |-> nb + a]
\* the mode is a kept draw whose loss is minimal for that individual, the earliest such draw
ModeIsArgmin == st = "done" => \A i \in Inds :
    LET a == CHOOSE x \in 1..Len(kept) : kept[x] = result[i].mode IN
    /\ \A b \in 1..Len(loss) : loss[a][i] <= loss[b][i]
    /\ \A c \in 1..(a - 1) : loss[c][i] > loss[a][i]
\* the mean is taken over exactly the kept draws
MeanOverKept == st = "done" => \A i \in Inds : result[i].mean_over = kept
\* every accepted setting returns
AcceptedReturns == st # "crashed"
=============================================================================
