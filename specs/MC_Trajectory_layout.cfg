SPECIFICATION Spec
CONSTANTS
  Kinds = {"logistic"}
  Requests <- MCRequests
  Forms = {"dict", "index"}
  DupOK = TRUE
  XiSets <- OneXi
INVARIANT EchoIdsAndAges
INVARIANT OrderPreserved
