---------------------------- MODULE WTAlgebraTrace ----------------------------
(* code -> spec: every enumerated case was evaluated on real WeightedTensor objects. *)
EXTENDS MC_WTAlgebra, Json, IOUtils
TLog == ndJsonDeserialize(IOEnv.TRACE_FILE)
VARIABLE k
TInit == /\ k \in 1..Len(TLog) /\ a = TLog[k].a /\ w = TLog[k].w /\ op = TLog[k].op /\ kind = TLog[k].kind /\ b = TLog[k].b
         /\ outcome = (IF Refused THEN "refused" ELSE "ok") /\ expv = ExpV /\ expw = w
TNext == UNCHANGED <<k, vars>>
TSpec == TInit /\ [][TNext]_<<k, vars>>
Rec == TLog[k]
Same(obs, exp) == obs.den = exp[2] /\ obs.num = exp[1] /\ obs.close
\* verdict-bearing (C06): maskings are carried by every operation, aggregates of the result see observed entries only
WeightsKept == /\ Rec.outcome = outcome
               /\ outcome = "ok" => (Rec.weights = expw /\ Rec.wcount = Cardinality(Observed) * (IF kind \in {"matrix", "wt_none_matrix"} THEN 2 ELSE 1) /\ Rec.wsum_own_ok /\ Rec.operands_untouched)
\* conformance note (arithmetic, not a missing-data matter): values at observed entries
ValuesRight == outcome = "ok" => ((\A i \in Observed : Same(Rec.values[i], expv[i])) /\ (kind \notin {"matrix", "wt_none_matrix"} => Same(Rec.wsum, WSumExp)))
Covered == IOEnv.EXPECT_COUNT = "0" \/ Cardinality({TLog[i].key : i \in 1..Len(TLog)}) = atoi(IOEnv.EXPECT_COUNT)
=============================================================================
