---------------------------- MODULE SamplerTrace ----------------------------
(***************************************************************************)
(* Validation of recorded calls of real samplers (several sampler objects  *)
(* per trace) against the rules of SamplerCore / the protocol of Sampler.  *)
(* Events (ndjson):                                                        *)
(*  Create   name kind blocks L lo hi den random_order                     *)
(*  Begin    name order                                                    *)
(*  Step     name block n_randn z_matches outside_changed n_rand cmp       *)
(*           accepted post_ok reads_ok            (population kinds)       *)
(*  StepInd  name n_randn z_matches n_rand cmps accepted post_ok reads_ok  *)
(*  End      name acc counter dirs window_ok                               *)
(* The numeric facts (z_matches, cmp, post_ok ...) are computed by the     *)
(* recorder against from-scratch evaluations (DESIGN 3.5); the protocol,   *)
(* the decision rule, the window and the adaptation are decided here.      *)
(***************************************************************************)
EXTENDS SamplerCore, Json, IOUtils, SequencesExt, TLC

TraceLog == ndJsonDeserialize(IOEnv.TRACE_FILE)
VARIABLES smp,    \* [names -> [kind, blocks, L, lo, hi, den, rnd, hist, counter, phase, todo, acc]]
          l
tvars == <<smp, l>>
Ev == TraceLog[l]
IsEvent(name) == l <= Len(TraceLog) /\ Ev.op = name /\ l' = l + 1
Known(n) == n \in DOMAIN smp
RangeOf(s) == {s[i] : i \in 1..Len(s)}
IsPermOf(o, b) == Len(o) = Len(b) /\ RangeOf(o) = RangeOf(b)
Upd(n, r) == smp' = [x \in DOMAIN smp \cup {n} |-> IF x = n THEN r ELSE smp[x]]

TCreate == /\ IsEvent("Create")
           /\ Upd(Ev.name, [kind |-> Ev.kind, blocks |-> Ev.blocks, L |-> Ev.L, lo |-> Ev.lo, hi |-> Ev.hi, den |-> Ev.den,
                            rnd |-> Ev.random_order,
                            hist |-> [b \in RangeOf(Ev.blocks) |-> EmptyWindow(Ev.L)],
                            counter |-> 0, phase |-> "idle", todo |-> <<>>,
                            acc |-> [b \in RangeOf(Ev.blocks) |-> FALSE]])

TBegin == /\ IsEvent("Begin") /\ Known(Ev.name)
          /\ LET s == smp[Ev.name] IN
             /\ s.phase = "idle"
             /\ IsPermOf(Ev.order, s.blocks)
             /\ (~s.rnd \/ s.kind = "ind") => Ev.order = s.blocks
             /\ Upd(Ev.name, [s EXCEPT !.phase = "old", !.todo = Ev.order, !.acc = [b \in RangeOf(s.blocks) |-> FALSE]])

\* one Metropolis step on one block of a population variable
TStep == /\ IsEvent("Step") /\ Known(Ev.name)
         /\ LET s == smp[Ev.name] IN
            /\ s.kind = "pop" /\ s.phase = "old" /\ s.todo # <<>>
            /\ Ev.block = Head(s.todo)                \* blocks are visited in the announced order, each once
            /\ Ev.n_randn = 1 /\ Ev.z_matches          \* proposal = std[block] * (one fresh standard normal draw)
            /\ ~Ev.outside_changed                     \* nothing but the block moved
            /\ Ev.n_rand = 1                           \* one uniform per decision, whatever alpha
            /\ DecisionOK(Ev.cmp, Ev.accepted)         \* accepted <=> u < exp(-D)
            /\ Ev.post_ok                              \* rejected: bit-equal to the snapshot; accepted: the proposed value
            /\ Ev.reads_ok                             \* later reads of every variable = from-scratch evaluation
            /\ Upd(Ev.name, [s EXCEPT !.todo = Tail(s.todo), !.acc = [s.acc EXCEPT ![Ev.block] = Ev.accepted]])

\* one grouped step of an individual variable: every individual proposed at once, decided separately
TStepInd == /\ IsEvent("StepInd") /\ Known(Ev.name)
            /\ LET s == smp[Ev.name] IN
               /\ s.kind = "ind" /\ s.phase = "old" /\ s.todo # <<>>
               /\ Ev.n_randn = 1 /\ Ev.z_matches
               /\ Ev.n_rand = 1
               /\ Len(Ev.cmps) = Len(s.blocks) /\ Len(Ev.accepted) = Len(s.blocks)
               /\ \A i \in 1..Len(s.blocks) : DecisionOK(Ev.cmps[i], Ev.accepted[i])    \* own alpha, own draw only
               /\ Ev.post_ok /\ Ev.reads_ok
               /\ Upd(Ev.name, [s EXCEPT !.todo = <<>>, !.acc = [b \in RangeOf(s.blocks) |->
                                   Ev.accepted[CHOOSE i \in 1..Len(s.blocks) : s.blocks[i] = b]]])

TEnd == /\ IsEvent("End") /\ Known(Ev.name)
        /\ LET s == smp[Ev.name]
               h2 == [b \in RangeOf(s.blocks) |-> Shift(s.hist[b], s.acc[b])]
               c2 == s.counter + 1
           IN /\ s.phase = "old" /\ s.todo = <<>>
              /\ Ev.counter = c2
              /\ Ev.window_ok                                            \* the real window is the shifted one
              /\ \A i \in 1..Len(s.blocks) :
                    /\ Ev.acc[i] = s.acc[s.blocks[i]]
                    /\ Ev.dirs[i] = AdaptDir(c2, h2[s.blocks[i]], s.L, s.lo, s.hi, s.den)   \* std * (1-f) | * (1+f) | unchanged
              /\ Upd(Ev.name, [s EXCEPT !.phase = "idle", !.hist = h2, !.counter = c2])

TraceInit == smp = <<>> /\ l = 1
TraceNext == TCreate \/ TBegin \/ TStep \/ TStepInd \/ TEnd
TraceSpec == TraceInit /\ [][TraceNext]_tvars
Report == IF TLCGet("stats").diameter - 1 = Len(TraceLog) THEN TRUE
          ELSE PrintT(<<"REJECTED-AT", TLCGet("stats").diameter, Len(TraceLog)>>) /\ FALSE
=============================================================================
