SPECIFICATION Spec
CONSTANTS
  Layout = "covariate"
  Ids = {"a", "b"}
  ETs = {"none"}
  EBs = {0}
  Covs = {"0", "1"}
  Ages = {1, 2, 3}
  MaxRows = 3
  Family = "three_one"
  RequireAnEvent = TRUE
  RequireTwoCovValues = TRUE
INVARIANT PermutationInvariant
INVARIANT OnePerIndividual
INVARIANT AcceptedIsConsistent
