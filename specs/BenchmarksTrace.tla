---------------------------- MODULE BenchmarksTrace ----------------------------
EXTENDS Benchmarks, Json, IOUtils
TLog == ndJsonDeserialize(IOEnv.TRACE_FILE)
VARIABLE k
TInit == /\ k \in 1..Len(TLog) /\ part = TLog[k].part /\ ptype = TLog[k].ptype /\ reuse = TLog[k].reuse
         /\ hist = [i \in 1..Len(TLog[k].hist) |-> [age |-> TLog[k].hist[i][1], val |-> TLog[k].hist[i][2]]]
         /\ lme = [ages |-> TLog[k].lme.ages, ys |-> TLog[k].lme.ys, b0 |-> TLog[k].lme.b0, b1 |-> TLog[k].lme.b1,
                   c11 |-> TLog[k].lme.c11, c12 |-> TLog[k].lme.c12, c22 |-> TLog[k].lme.c22, slope |-> TLog[k].lme.slope]
TNext == UNCHANGED <<k, vars>>
TSpec == TInit /\ [][TNext]_<<k, vars>>
Rec == TLog[k]
RatEq(obs, e) == IF e[2] = 0 THEN obs.nan ELSE (~obs.nan /\ obs.den = e[2] /\ obs.num = e[1] /\ obs.close)
Conforms ==
   /\ Rec.status = "ok"
   /\ part = "constant" => (/\ RatEq(Rec.value, ConstantExpected)
                            /\ Rec.repeated_at_every_age)            \* the prediction is repeated at every requested age
   /\ part = "lme" => (/\ RatEq(Rec.re0, LmeExpected[1]) /\ RatEq(Rec.re1, LmeExpected[2])
                       /\ Rec.trajectory_is_line                    \* X (beta + b): a straight line in age
                       /\ Rec.repeat_same)                          \* asked again (estimate, personalize): the same answers
   /\ part = "lme_ref" => Rec.matches_reference_library              \* personalised effects = statsmodels' conditional means
=============================================================================
