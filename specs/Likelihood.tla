---------------------------- MODULE Likelihood ----------------------------
(***************************************************************************)
(* Negative log-densities of the documented distributions as symbolic      *)
(* terms (DESIGN 2.4), with the case structure of the right-censored       *)
(* Weibull likelihood on the reparametrized time.                          *)
(* Terms: <<"num",p,q>> <<"var",name>> <<"add",a,b>> <<"sub",a,b>>         *)
(*        <<"mul",a,b>> <<"div",a,b>> <<"neg",a>> <<"log",a>> <<"exp",a>>  *)
(*        <<"pow",a,b>> <<"sq",a>>                                         *)
(***************************************************************************)
EXTENDS Naturals, Sequences, TLC
CONSTANTS Families,   \* subset of {"normal", "mixnormal", "bernoulli", "weibull"}  ("mixnormal": the Gaussian component of one cluster
                      \* of the mixture prior - the per-cluster regularity of the mixture model)
          Censorings, \* subset of {"censored", "observed"}
          Positions,  \* event relative to the individual's reference time: subset of {"before", "just_before", "at", "just_after",
                      \* "after"}  ("just_*": by 2^-15, far below any rounding band one might be tempted to treat as "at")
          Shapes,     \* Weibull shape classes: subset of {"lt1", "eq1", "gt1", "eq3"}
          Sources,    \* subset of BOOLEAN : reparametrized scale with / without space shifts
          Outcomes,   \* Bernoulli: subset of {"y0", "y1"}
          Probs       \* Bernoulli: subset of {"interior", "sat0", "sat1"}
VARIABLES fam, cens, pos, shp, src, yb, pb,
          term, kind,     \* the expected negative log-density of the case, as a term, and its class (shipped to the driver)
          jac,            \* its derivative with respect to the value, as a term (Gaussian families; <<"none">> elsewhere)
          aux             \* Weibull after the reference time: <<hazard, log-survival>> as terms, the two other functions the family hands
                          \* out (ingredients of the predicted event part of a joint trajectory); <<>> elsewhere
vars == <<fam, cens, pos, shp, src, yb, pb, term, kind, jac, aux>>
Init0 == /\ fam \in Families /\ cens \in Censorings /\ pos \in Positions /\ shp \in Shapes /\ src \in Sources
        /\ yb \in Outcomes /\ pb \in Probs
        \* canonical values for the dimensions a family does not use
        /\ (fam # "weibull" => (cens = "observed" /\ pos = "after" /\ shp = "gt1" /\ src = FALSE))
        /\ (pos \in {"just_before", "just_after"} => shp \in {"lt1", "gt1"})     \* (the close positions on two shape classes)
        /\ (fam # "bernoulli" => (yb = "y1" /\ pb = "interior"))
        /\ (fam = "bernoulli" => ~(yb = "y1" /\ pb = "sat0") /\ ~(yb = "y0" /\ pb = "sat1"))   \* impossible outcomes are out of scope
V(n) == <<"var", n>>
Num(p, q) == <<"num", p, q>>
Add(a, b) == <<"add", a, b>>
Sub(a, b) == <<"sub", a, b>>
Mul(a, b) == <<"mul", a, b>>
Div(a, b) == <<"div", a, b>>
Neg(a) == <<"neg", a>>
Log(a) == <<"log", a>>
Exp(a) == <<"exp", a>>
Pow(a, b) == <<"pow", a, b>>
Sq(a) == <<"sq", a>>
HalfLog2Pi == Mul(Num(1, 2), Log(Mul(Num(2, 1), V("pi"))))
Penalty == <<"num", 1, 1>>       \* stands for constants.INFINITY = 1e307 (compared literally by the driver, see Finite)

\* Gaussian: 1/2 ((x - mu)/sigma)^2 + log sigma + 1/2 log(2 pi)
NormalNll == Add(Add(Mul(Num(1, 2), Sq(Div(Sub(V("x"), V("mu")), V("sigma")))), Log(V("sigma"))), HalfLog2Pi)
\* Bernoulli: -(y log p + (1 - y) log(1 - p)); a saturated prediction that agrees with the outcome costs nothing
BernoulliNll == IF pb # "interior" THEN Num(0, 1)
                ELSE IF yb = "y1" THEN Neg(Log(V("p"))) ELSE Neg(Log(Sub(Num(1, 1), V("p"))))
\* Weibull on the reparametrized time t' = t - tau with scale nu' = nu exp(-(xi + shifts/rho))
NuRep == IF src THEN Mul(V("nu"), Exp(Neg(Add(V("xi"), Div(V("shift"), V("rho"))))))
         ELSE Mul(V("nu"), Exp(Neg(V("xi"))))
TRep == Sub(V("t"), V("tau"))
Survival == Pow(Div(TRep, NuRep), V("rho"))                                   \* -log S(t') for t' > 0
LogHazard == Add(Log(Div(V("rho"), NuRep)), Mul(Sub(V("rho"), Num(1, 1)), Log(Div(TRep, NuRep))))
IsAfter == pos \in {"after", "just_after"}
HazardTerm == Exp(LogHazard)                                                  \* h(t') = rho/nu' (t'/nu')^(rho - 1)
LogSurvivalTerm == Neg(Survival)                                              \* log S(t') = -(t'/nu')^rho
Aux == IF fam = "weibull" /\ IsAfter THEN <<HazardTerm, LogSurvivalTerm>> ELSE <<>>
WeibullKind == IF cens = "censored" THEN (IF IsAfter THEN "survival" ELSE "zero")
               ELSE (IF IsAfter THEN "survival_plus_hazard" ELSE "penalty")
WeibullNll == CASE WeibullKind = "zero" -> Num(0, 1)                          \* censored at / before the reference time: S = 1
                [] WeibullKind = "survival" -> Survival
                [] WeibullKind = "survival_plus_hazard" -> Sub(Survival, LogHazard)
                [] WeibullKind = "penalty" -> Penalty

Kind == IF fam = "weibull" THEN WeibullKind ELSE IF fam = "bernoulli" /\ pb # "interior" THEN "zero" ELSE "formula"
Term == CASE fam \in {"normal", "mixnormal"} -> NormalNll [] fam = "bernoulli" -> BernoulliNll [] fam = "weibull" -> WeibullNll


\* Symbolic differentiation of a term with respect to a variable (beyond the listed properties: the families also hand out
\* the derivative of the negative log-density with respect to the value; the driver compares it with D(Term, "x") and
\* cross-checks D itself against a central difference of the evaluated term).
RECURSIVE D(_, _)
D(t, v) == CASE t[1] = "num" -> Num(0, 1)
             [] t[1] = "var" -> IF t[2] = v THEN Num(1, 1) ELSE Num(0, 1)
             [] t[1] = "add" -> Add(D(t[2], v), D(t[3], v))
             [] t[1] = "sub" -> Sub(D(t[2], v), D(t[3], v))
             [] t[1] = "mul" -> Add(Mul(D(t[2], v), t[3]), Mul(t[2], D(t[3], v)))
             [] t[1] = "div" -> Div(Sub(Mul(D(t[2], v), t[3]), Mul(t[2], D(t[3], v))), Sq(t[3]))
             [] t[1] = "neg" -> Neg(D(t[2], v))
             [] t[1] = "log" -> Div(D(t[2], v), t[2])
             [] t[1] = "exp" -> Mul(t, D(t[2], v))
             [] t[1] = "sq" -> Mul(Mul(Num(2, 1), t[2]), D(t[2], v))
             [] t[1] = "pow" -> Mul(t, Add(Mul(D(t[3], v), Log(t[2])), Div(Mul(t[3], D(t[2], v)), t[2])))
Jac == IF fam \in {"normal", "mixnormal"} THEN D(Term, "x") ELSE <<"none">>
\* a derivative never mentions a variable the term does not mention
RECURSIVE VarsOf(_)
VarsOf(t) == CASE t[1] = "num" -> {} [] t[1] = "var" -> {t[2]} [] t[1] = "none" -> {}
               [] t[1] \in {"neg", "log", "exp", "sq"} -> VarsOf(t[2])
               [] OTHER -> VarsOf(t[2]) \cup VarsOf(t[3])
DerivativeClosed == VarsOf(jac) \subseteq VarsOf(term)

Init == Init0 /\ term = Term /\ kind = Kind /\ jac = Jac /\ aux = Aux
Next == UNCHANGED vars
Spec == Init /\ [][Next]_vars

\* a censored individual contributes only its survival term; an observed event adds the log-hazard
CensoredOnlySurvival == (fam = "weibull" /\ cens = "censored") => WeibullKind \in {"survival", "zero"}
\* an event placed at or before the reference time: prohibitive finite penalty when observed, never NaN / infinity
Finite == (fam = "weibull" /\ ~IsAfter) => WeibullKind \in {"penalty", "zero"}
\* however close to the reference time, an event strictly after it is an ordinary event
\* the density of an observed event is hazard x survival: -log(h S) is the term of the case (structural identity of the terms)
HazardTimesSurvival == (fam = "weibull" /\ WeibullKind = "survival_plus_hazard") =>
                          /\ aux # <<>> /\ aux[1] = Exp(LogHazard) /\ aux[2] = Neg(Survival) /\ term = Sub(aux[2][2], aux[1][2])
CloseIsOrdinary == (fam = "weibull" /\ pos = "just_after") => WeibullKind \in {"survival", "survival_plus_hazard"}
=============================================================================
