---------------------------- MODULE VarGraph ----------------------------
(***************************************************************************)
(* Construction of the dependency graph of variables                       *)
(* (leaspy.variables.dag.VariablesDAG): name-sorted Kahn ordering with a   *)
(* FIFO queue, path sets propagated along edges, closures read off in the  *)
(* emitted order.  Nodes are the ranks 1..N of the variable names in       *)
(* sorted order; 0 stands for a reference to an unknown variable.          *)
(* A declaration is par : [1..N -> SUBSET (0..N)] (direct dependencies).   *)
(***************************************************************************)
EXTENDS Naturals, FiniteSets, Sequences, TLC, SequencesExt, FiniteSetsExt

NodesOf(par) == DOMAIN par
SortSet(S) == SetToSortSeq(S, <)

\* ---- the builder, as implemented -----------------------------------------
RECURSIVE Relax(_, _, _, _, _)
Relax(n, ch, q, anc, pm) ==   \* visit the children of n in sorted order
  IF ch = <<>> THEN <<q, anc, pm>>
  ELSE LET m == Head(ch)
           pm2 == [pm EXCEPT ![m] = pm[m] \cup pm[n] \cup {n}]       \* column m |= column n ; (n,m) := TRUE
           anc2 == [anc EXCEPT ![m] = anc[m] \ {n}]                   \* drop the edge
           q2 == IF anc2[m] = {} THEN Append(q, m) ELSE q
       IN Relax(n, Tail(ch), q2, anc2, pm2)

RECURSIVE Kahn(_, _, _, _, _)
Kahn(par, q, out, anc, pm) ==
  IF q = <<>> THEN <<out, pm>>
  ELSE LET n == Head(q)
           ch == SortSet({m \in NodesOf(par) : n \in par[m]})          \* all direct children, sorted by name
           r == Relax(n, ch, Tail(q), anc, pm)
       IN Kahn(par, r[1], Append(out, n), r[2], r[3])

Build(par) ==
  LET nn == Cardinality(NodesOf(par))
      Nodes == NodesOf(par)
      unknown == UNION {par[n] : n \in Nodes} \ Nodes
      selfl == {n \in Nodes : n \in par[n]}
      alone == {n \in Nodes : par[n] = {} /\ ~\E m \in Nodes : n \in par[m]}
  IN IF unknown # {} THEN [status |-> "unknown"]
     ELSE IF selfl # {} THEN [status |-> "selfloop"]
     ELSE IF alone # {} THEN [status |-> "alone"]
     ELSE LET roots == SortSet({n \in Nodes : par[n] = {}})
              r == Kahn(par, roots, <<>>, par, [n \in Nodes |-> {}])
              order == r[1]
          IN IF Len(order) # nn THEN [status |-> "cycle"]
             ELSE [status |-> "ok", order |-> order,
                   anc |-> [n \in Nodes |-> SelectSeq(order, LAMBDA k : k \in r[2][n])],
                   desc |-> [n \in Nodes |-> SelectSeq(order, LAMBDA k : n \in r[2][k])]]

\* exception class raised by the implementation for each refusal
ClassOf(status) == CASE status = "ok" -> "ok"
                     [] status \in {"unknown", "selfloop", "alone"} -> "input_error"
                     [] status = "cycle" -> "value_error"

\* ---- reference definitions (what the property says) ----------------------
RECURSIVE AncRef(_, _, _)
AncRef(par, n, fuel) == IF fuel = 0 THEN {}
                        ELSE par[n] \cup UNION {AncRef(par, p, fuel - 1) : p \in par[n] \cap NodesOf(par)}
Cyclic(par) == \E n \in NodesOf(par) : n \in AncRef(par, n, Cardinality(NodesOf(par)))
Pos(order, n) == CHOOSE i \in 1..Len(order) : order[i] = n
IsSubseqOf(s, order) == \A i, j \in 1..Len(s) : i < j => Pos(order, s[i]) < Pos(order, s[j])
RangeOf(s) == {s[i] : i \in 1..Len(s)}

Bad(par) == \/ UNION {par[n] : n \in NodesOf(par)} \ NodesOf(par) # {}
            \/ \E n \in NodesOf(par) : n \in par[n]
            \/ \E n \in NodesOf(par) : par[n] = {} /\ ~\E m \in NodesOf(par) : n \in par[m]
            \/ Cyclic(par)

RejectExactlyP(par) == (Build(par).status # "ok") <=> Bad(par)
TopoOrderP(par) == LET R == Build(par) nn == Cardinality(NodesOf(par)) IN
   R.status = "ok" => /\ Len(R.order) = nn /\ RangeOf(R.order) = NodesOf(par)
                       /\ \A n \in NodesOf(par) : \A p \in par[n] : Pos(R.order, p) < Pos(R.order, n)
ClosureExactP(par) == LET R == Build(par) nn == Cardinality(NodesOf(par)) IN
   R.status = "ok" => \A n \in NodesOf(par) :
     /\ RangeOf(R.anc[n]) = AncRef(par, n, nn)
     /\ RangeOf(R.desc[n]) = {m \in NodesOf(par) : n \in AncRef(par, m, nn)}
     /\ Len(R.anc[n]) = Cardinality(RangeOf(R.anc[n])) /\ Len(R.desc[n]) = Cardinality(RangeOf(R.desc[n]))
     /\ IsSubseqOf(R.anc[n], R.order) /\ IsSubseqOf(R.desc[n], R.order)

\* ---- exhaustive exploration of all declarations over N nodes --------------
CONSTANT N
VARIABLE par
Init == par \in [1..N -> SUBSET (0..N)]
Next == UNCHANGED par
Spec == Init /\ [][Next]_par

RejectExactly == RejectExactlyP(par)
TopoOrder == TopoOrderP(par)
ClosureExact == ClosureExactP(par)
=============================================================================
