SPECIFICATION Spec
CONSTANTS
  VisitTypes = {"random", "dataframe", "other"}
  PNs = {"pos", "zero", "neg", "str", "none", "true", "float"}
  Stds = {"ok", "neg"}
  DMeans = {"pos", "zero", "neg"}
  DStds = {"pos", "zero"}
  Spacings = {"absent", "one", "tenth", "tiny", "neg", "str"}
  FeatKinds = {"ok", "empty", "nonstr", "blank", "notlist"}
  Missing = {TRUE, FALSE}
  Cols = {"ok", "noid", "notime"}
  NullTimes = {TRUE, FALSE}
  IdKinds = {"str", "int"}
  SrcDims = {1, 0}
  MaxDev = 2
  AsBuilt = FALSE
INVARIANT Honoured
