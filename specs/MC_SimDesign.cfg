SPECIFICATION Spec
CONSTANTS
  VisitTypes = {"random", "dataframe", "other"}
  PNs = {"pos", "one", "zero", "neg", "str", "none", "true", "float"}
  Stds = {"ok", "neg", "true"}
  DMeans = {"pos", "zero", "neg"}
  DStds = {"pos", "zero", "large"}
  Spacings = {"absent", "one", "tenth", "tiny", "neg", "str"}
  FollowUps = {"pos", "zero", "long"}
  FeatKinds = {"ok", "empty", "nonstr", "blank", "notlist"}
  Missing = {TRUE, FALSE}
  Cols = {"ok", "noid", "notime"}
  NullTimes = {TRUE, FALSE}
  IdKinds = {"str", "int"}
  TabShapes = {"plain", "unsorted_repeat", "late"}
  SrcDims = {1, 0}
  NoiseKinds = {"diag", "scalar_loaded"}
  MaxDev = 2
  Deviations = {}
INVARIANT Honoured
