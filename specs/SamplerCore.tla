---------------------------- MODULE SamplerCore ----------------------------
(***************************************************************************)
(* Pure rules shared by Sampler.tla (exhaustive state machine) and         *)
(* SamplerTrace.tla (validation of recorded sampler calls):                *)
(* Metropolis decision, rolling acceptance window, proposal-scale          *)
(* adaptation (leaspy.samplers.base / gibbs).                              *)
(***************************************************************************)
EXTENDS Integers, Sequences, FiniteSets

\* cmp is the comparison class of the uniform draw u with alpha = exp(-D):  "lt" (u < alpha), "ge" (u >= alpha, or
\* alpha is NaN), "tie" (u within 1e-5 relative of alpha: either decision is explainable)
Accepts(cmp) == cmp = "lt"
DecisionOK(cmp, accepted) == cmp = "tie" \/ (accepted <=> Accepts(cmp))

\* rolling window of the last L decisions of one block
Shift(h, a) == Tail(h) \o <<a>>
Count(h) == Cardinality({i \in 1..Len(h) : h[i]})
EmptyWindow(L) == [i \in 1..L |-> FALSE]

\* direction of the adaptation of the proposal scale after the c2-th call, given the shifted window h2
\* band: Lo/Den < mean acceptance < Hi/Den
AdaptDir(c2, h2, L, Lo, Hi, Den) ==
   IF c2 % L # 0 THEN "same"
   ELSE IF Den * Count(h2) < Lo * L THEN "down"
   ELSE IF Den * Count(h2) > Hi * L THEN "up"
   ELSE "same"
=============================================================================
