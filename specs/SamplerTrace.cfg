SPECIFICATION TraceSpec
CHECK_DEADLOCK FALSE
POSTCONDITION Report
