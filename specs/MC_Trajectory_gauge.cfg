SPECIFICATION Spec
CONSTANTS
  Kinds = {"logistic", "linear", "shared"}
  Requests <- OneReq
  Forms = {"dict"}
  DupOK = TRUE
  XiSets <- MCXis
INVARIANT ZeroMean
INVARIANT GaugeInvariant
