SPECIFICATION Spec
CONSTANTS
  Histories <- MCHist
  PredTypes = {"last", "last_known", "max", "mean"}
  LmeCases <- MCLme
INVARIANT LastKnownExtendsLast
INVARIANT MeanBetween
INVARIANT Shrinks
