---------------------------- MODULE Saem ----------------------------
(***************************************************************************)
(* One run of the MCMC-SAEM fit algorithm (TensorMcmcSaemAlgorithm):       *)
(* configuration resolution and refusal, per-iteration structure           *)
(* (sample every latent variable once, sufficient statistics, stochastic   *)
(* approximation combination, batched maximization, temperature update,    *)
(* logging), and termination.                                              *)
(*                                                                         *)
(* Rationals are pairs <<num, den>> (den > 0).  Fractions of the number of *)
(* iterations are given in tenths.                                         *)
(***************************************************************************)
EXTENDS Integers, Sequences, FiniteSets, TLC

CONSTANTS NIters,      \* set of n_iter values
          BurnSpecs,   \* set of <<"count", c>> | <<"frac", tenths>> | <<"frac8", eighths>>
          Powers,      \* set of rationals <<num, den>> for burn_in_step_power
          Anneals,     \* set of <<"off">> | <<"on", <<"count"|"frac", x>>, P, T0>>  (T0 rational)
          LogCfgs,     \* set of [on, print, save, plot, patients, path, dir, overwrite]; periodicity 0 = none;
                       \* on = some logging option was given; dir = state of the output folder before the run
          Vars,        \* latent variables sampled at each iteration
          VarSeq,      \* the same in sorted (name) order, as a sequence
          Params,      \* model parameters updated at each iteration
          RandomOrders,\* subset of BOOLEAN : random_order_variables
          GuardLowT0,        \* TRUE: a single-plateau scheme with initial temperature < 1 is refused (intended)
          GuardPeriodZero,   \* TRUE: a plateau length of 0 is refused at start (intended); FALSE: crashes (as first built)
          PrintNeedsNoPath   \* TRUE: console printing works without an output path (intended); FALSE: crash without path

VARIABLES cfg,     \* the chosen configuration [n, burn, pw, ann, log, rnd]
          st,      \* "new" | "run" | "done" | "refused" | "crashed"
          k,       \* current iteration (0 before the first)
          phase,   \* within an iteration: "idle" | "sampled" | "maximized" | "cooled" | "logged"
          order,   \* sequence of variables sampled in the current iteration
          mem,     \* how the statistics used at iteration k were formed: <<"none">> | <<"memoryless">> | <<"avg", m>>
          j,       \* number of temperature decrements applied so far
          ver,     \* [Params -> Nat] version of each parameter
          reads,   \* versions read by the compute step of the current maximization: [Params -> [Params -> Nat]]
          emitted  \* outputs emitted at the current iteration (subset of {"print","save","plot","patients"})

vars == <<cfg, st, k, phase, order, mem, j, ver, reads, emitted>>

-----------------------------------------------------------------------------
\* rational helpers
Lt(a, b) == a[1] * b[2] < b[1] * a[2]
Le(a, b) == a[1] * b[2] <= b[1] * a[2]
Eq(a, b) == a[1] * b[2] = b[1] * a[2]
One == <<1, 1>>
Half == <<1, 2>>

\* ---- resolution of the configuration (constructor + _initialize_annealing + OutputsSettings) ----
\* <<"frac", f>>: f tenths;  <<"frac8", f>>: f eighths (fractions that are not whole percents, exact in binary)
Resolve(spec, n) == IF spec[1] = "count" THEN spec[2]
                    ELSE IF spec[1] = "frac8" THEN (spec[2] * n) \div 8
                    ELSE (spec[2] * n) \div 10      \* int(frac * n_iter)
NBurn(c) == Resolve(c.burn, c.n)
AnnOn(c) == c.ann[1] = "on"
NAnn(c) == Resolve(c.ann[2], c.n)
NPlateau(c) == c.ann[3]
T0(c) == c.ann[4]
Period(c) == IF NPlateau(c) = 1 THEN 0 ELSE NAnn(c) \div (NPlateau(c) - 1)

PowerRefused(c) == ~(Lt(Half, c.pw) /\ Le(c.pw, One))
AnnealRefused(c) == AnnOn(c) /\
     \/ (NPlateau(c) >= 2 /\ (\/ Le(T0(c), One)                        \* "initial_temperature should be > 1"
                              \/ (GuardPeriodZero /\ Period(c) = 0)))   \* fewer annealing iterations than plateau steps
     \/ (NPlateau(c) = 1 /\ GuardLowT0 /\ Lt(T0(c), One))               \* single plateau below temperature 1
HasLog(c) == c.log.on
LogRefused(c) == HasLog(c) /\
   (\/ (c.log.plot # 0 /\ (c.log.save = 0 \/ c.log.plot % c.log.save # 0))     \* plots need saves, at multiples
    \/ (c.log.path /\ c.log.dir = "nonempty" /\ ~c.log.overwrite))             \* existing non-empty folder
Refused(c) == PowerRefused(c) \/ AnnealRefused(c) \/ LogRefused(c)

\* outputs have somewhere to go: a path was given, or saving is on (default folder)
HasPath(c) == HasLog(c) /\ (c.log.path \/ c.log.save # 0)

Configs == {c \in [n : NIters, burn : BurnSpecs, pw : Powers, ann : Anneals, log : LogCfgs, rnd : RandomOrders] : TRUE}

Init == /\ cfg \in Configs
        /\ st = "new" /\ k = 0 /\ phase = "idle" /\ order = <<>> /\ mem = <<"none">> /\ j = 0
        /\ ver = [p \in Params |-> 0] /\ reads = [p \in Params |-> [q \in Params |-> 0]] /\ emitted = {}

\* constructor and run start
Start == /\ st = "new"
         /\ st' = IF Refused(cfg) THEN "refused" ELSE "run"
         /\ UNCHANGED <<cfg, k, phase, order, mem, j, ver, reads, emitted>>

Perms(S) == {s \in [1..Cardinality(S) -> S] : \A a, b \in 1..Cardinality(S) : a # b => s[a] # s[b]}
SortedVars == VarSeq

\* 1. every latent variable is sampled exactly once (shuffled order when random_order_variables)
IsOrder(o) == /\ Len(o) = Cardinality(Vars) /\ {o[i] : i \in 1..Len(o)} = Vars
              /\ (~cfg.rnd => o = SortedVars)
SampleAll(o) == /\ st = "run" /\ phase \in {"idle", "logged"} /\ k < cfg.n
                /\ IsOrder(o)
                /\ k' = k + 1
                /\ order' = o
                /\ phase' = "sampled" /\ emitted' = {}
                /\ UNCHANGED <<cfg, st, mem, j, ver, reads>>
ASampleAll == \E o \in (IF cfg.rnd THEN Perms(Vars) ELSE {SortedVars}) : SampleAll(o)

\* 2. stochastic approximation: memoryless during burn-in and at the first iteration after it, else step m = k - nb
Maximize == /\ st = "run" /\ phase = "sampled"
            /\ mem' = IF k <= NBurn(cfg) \/ k = NBurn(cfg) + 1 THEN <<"memoryless">> ELSE <<"avg", k - NBurn(cfg)>>
            \* 3. all updates are computed from the pre-step parameters, then assigned together
            /\ reads' = [p \in Params |-> ver]
            /\ ver' = [p \in Params |-> ver[p] + 1]
            /\ phase' = "maximized"
            /\ UNCHANGED <<cfg, st, k, order, j, emitted>>

\* 4. plateau annealing
Cool == /\ st = "run" /\ phase = "maximized"
        /\ IF ~AnnOn(cfg) \/ NPlateau(cfg) = 1 \/ k > NAnn(cfg)
             THEN UNCHANGED <<j, st>>
             ELSE IF Period(cfg) = 0
                    THEN /\ st' = "crashed" /\ UNCHANGED j            \* k % 0
                    ELSE /\ j' = IF k % Period(cfg) = 0 THEN j + 1 ELSE j
                         /\ UNCHANGED st
        /\ phase' = "cooled"
        /\ UNCHANGED <<cfg, k, order, mem, ver, reads, emitted>>

Due(p) == p # 0 /\ k % p = 0
\* 5. logging (only reads the algorithm / model)
Log == /\ st = "run" /\ phase = "cooled"
       /\ IF ~HasLog(cfg) THEN emitted' = {} /\ UNCHANGED st
          ELSE IF ~HasPath(cfg)
                 THEN IF PrintNeedsNoPath
                        THEN /\ emitted' = (IF Due(cfg.log.print) THEN {"print"} ELSE {}) /\ UNCHANGED st
                        ELSE /\ st' = "crashed" /\ emitted' = {}      \* no output path attribute
                 ELSE /\ emitted' = (IF Due(cfg.log.print) THEN {"print"} ELSE {})
                                     \cup (IF Due(cfg.log.save) THEN {"save"} ELSE {})
                                     \cup (IF Due(cfg.log.patients) THEN {"patients"} ELSE {})
                                     \cup (IF Due(cfg.log.plot) THEN {"plot"} ELSE {})
                      /\ UNCHANGED st
       /\ phase' = "logged"
       /\ UNCHANGED <<cfg, k, order, mem, j, ver, reads>>

Finish == /\ st = "run" /\ phase \in {"idle", "logged"} /\ k = cfg.n
          /\ st' = "done"
          /\ UNCHANGED <<cfg, k, phase, order, mem, j, ver, reads, emitted>>

Next == Start \/ ASampleAll \/ Maximize \/ Cool \/ Log \/ Finish
Spec == Init /\ [][Next]_vars /\ WF_vars(Next)

-----------------------------------------------------------------------------
\* temperature as an exact rational: max(T0 - j * (T0 - 1)/(P - 1), 1)
TempAt(c, jj) ==
   IF ~AnnOn(c) THEN One
   ELSE IF NPlateau(c) = 1 THEN T0(c)
   ELSE LET num == T0(c)[1] * (NPlateau(c) - 1) - jj * (T0(c)[1] - T0(c)[2])
            den == T0(c)[2] * (NPlateau(c) - 1)
        IN IF jj >= NPlateau(c) - 1 \/ num <= den THEN One ELSE <<num, den>>
Temp == TempAt(cfg, j)

-----------------------------------------------------------------------------
\* C05
PhaseRule == (phase = "maximized") => ((mem = <<"memoryless">>) <=> (k <= NBurn(cfg) + 1))
StepIndexRule == (phase = "maximized" /\ mem[1] = "avg") => (mem[2] = k - NBurn(cfg) /\ mem[2] >= 2)
BurnInLength == NBurn(cfg) = (IF cfg.burn[1] = "count" THEN cfg.burn[2]
                               ELSE IF cfg.burn[1] = "frac8" THEN (cfg.burn[2] * cfg.n) \div 8 ELSE (cfg.burn[2] * cfg.n) \div 10)
PowerRefusedInv == (st \in {"run", "done"}) => (Lt(Half, cfg.pw) /\ Le(cfg.pw, One))
\* C04
BatchUpdate == (phase = "maximized") => \A p \in Params : \A q \in Params : reads[p][q] = ver[q] - 1
\* every latent variable exactly once per iteration
SampledOnce == (phase # "idle" /\ st = "run") => (Len(order) = Cardinality(Vars) /\ {order[i] : i \in 1..Len(order)} = Vars)
\* C19 (temperature)
TempStart == (st = "run" /\ k = 0) => Eq(Temp, IF AnnOn(cfg) THEN T0(cfg) ELSE One)
TempFloor == (st \in {"run", "done"}) => Le(One, Temp)
TempMonotone == [][ st' # "crashed" => Le(TempAt(cfg', j'), TempAt(cfg, j)) ]_vars
TempOnlyAtBoundaries == [][ j' # j => (AnnOn(cfg) /\ phase' = "cooled" /\ k <= NAnn(cfg) /\ Period(cfg) > 0 /\ k % Period(cfg) = 0) ]_vars
\* (a single plateau is the documented degenerate scheme: the run stays at the initial temperature, with a warning)
TempOneAfterAnnealing == (st \in {"run", "done"} /\ AnnOn(cfg) /\ NPlateau(cfg) >= 2
                           /\ (k > NAnn(cfg) \/ (k = NAnn(cfg) /\ phase \in {"cooled", "logged", "idle"})))
                          => Temp = One      \* literally one, not merely equal as a fraction
NoAnnealingIsOne == (st \in {"run", "done"} /\ ~AnnOn(cfg)) => Temp = One
\* the number of decrements in closed form (the inductive invariant that AnnealInd.tla proves for arbitrary parameters with
\* Apalache, checked here on the variables of this specification): floor(min(k, nAnn) / period) once iteration k has cooled
MinOf(a, b) == IF a < b THEN a ELSE b
DecrementsClosedForm == (st \in {"run", "done"} /\ AnnOn(cfg) /\ NPlateau(cfg) >= 2 /\ Period(cfg) > 0 /\ phase \in {"cooled", "logged", "idle"})
                          => /\ j = MinOf(k, NAnn(cfg)) \div Period(cfg)
                             \* (the relational form under which AnnealInd.tla introduces its `period`)
                             /\ Period(cfg) * (NPlateau(cfg) - 1) <= NAnn(cfg) /\ NAnn(cfg) < (Period(cfg) + 1) * (NPlateau(cfg) - 1)
\* C19 / C11: a configuration that was not refused runs to completion
AcceptedCompletes == st # "crashed"
Termination == <>(st \in {"done", "refused", "crashed"})
\* C11: logging emits exactly what is due, and is the only thing that happens in the logging step
LogExactlyWhenDue == (phase = "logged" /\ st = "run" /\ HasPath(cfg)) =>
     /\ ("print" \in emitted) = Due(cfg.log.print)
     /\ ("save" \in emitted) = Due(cfg.log.save)
     /\ ("plot" \in emitted) = Due(cfg.log.plot)
     /\ ("patients" \in emitted) = Due(cfg.log.patients)
LogReadOnly == [][ phase' = "logged" => UNCHANGED <<cfg, k, order, mem, j, ver, reads>> ]_vars
\* the three concerns never touch each other's variables
Independent == [][ /\ (mem' # mem => phase' = "maximized")
                   /\ (j' # j => phase' = "cooled")
                   /\ (emitted' # emitted => phase' \in {"logged", "sampled"}) ]_vars
=============================================================================
