---------------------------- MODULE Trajectory ----------------------------
(***************************************************************************)
(* Individual trajectories (leaspy.models.{time_reparametrized, logistic,  *)
(* linear, shared_speed_logistic}, BaseModel.estimate):                    *)
(*  (A) closed forms as symbolic terms per model kind and feature          *)
(*  (B) the layout machine of estimate(): which rows come back, in which   *)
(*      order, for a request given as a dict or as a MultiIndex            *)
(*  (C) the re-centring of log-accelerations as a gauge change             *)
(***************************************************************************)
EXTENDS Integers, Sequences, FiniteSets, TLC
CONSTANTS Kinds,      \* subset of {"logistic", "linear", "shared"}
          Requests,   \* set of sequences of <<id, age>> (ages are abstract labels; requests may interleave ids, repeat ages)
          Forms,      \* subset of {"dict", "index"}
          DupOK,      \* TRUE (intended): a repeated <<id, age>> in an index request comes back once per occurrence
          XiSets      \* set of sequences of integer log-accelerations (for the gauge part)
VARIABLES kind, req, form, xis, term, rows,
          msq, dir    \* (D) terms, per feature, of the squared metric and of the direction of progression (orthogonality of space shifts)
vars == <<kind, req, form, xis, term, rows, msq, dir>>

V(n) == <<"var", n>>
Num(p, q) == <<"num", p, q>>
Add(a, b) == <<"add", a, b>>
Sub(a, b) == <<"sub", a, b>>
Mul(a, b) == <<"mul", a, b>>
Div(a, b) == <<"div", a, b>>
Neg(a) == <<"neg", a>>
Logt(a) == <<"log", a>>
Exp(a) == <<"exp", a>>
Sq(a) == <<"sq", a>>
Sig(a) == <<"sigmoid", a>>
\* reparametrized age
Rt == Mul(Exp(V("xi")), Sub(V("t"), V("tau")))
\* one feature of each curve family (w = the individual's space shift on that feature, 0 without sources)
LogisticF == Sig(Sub(Mul(Div(Sq(Add(V("g"), Num(1, 1))), V("g")), Add(Mul(V("v0"), Rt), V("w"))), Logt(V("g"))))
LinearF == Add(Add(V("g"), Mul(V("v0"), Rt)), V("w"))
GD == Mul(V("g"), Exp(Neg(V("delta"))))                                   \* g exp(-delta_f), delta_1 = 0
SharedF == Sig(Sub(Add(Add(Mul(Div(Sq(Add(GD, Num(1, 1))), GD), V("w")), Rt), V("delta")), Logt(V("g"))))
TermOf(k) == CASE k = "logistic" -> LogisticF [] k = "linear" -> LinearF [] k = "shared" -> SharedF

\* (D) the metric in which space shifts are orthogonal to the direction of progression, and that direction, per feature:
\*   logistic: G = ((g+1)^2/g)^2, direction v0;  linear: G = 1, direction v0;
\*   shared speed: gamma = 1/(1 + g exp(-delta)), G = 1/(gamma (1-gamma))^2, direction exp(-delta)/(1 + g exp(-delta))^2
\* C10: for every row a of the mixing matrix  sum_f a_f G_f d_f = 0
One == Num(1, 1)
Gamma0 == Div(One, Add(One, GD))
MetricSqOf(k) == CASE k = "logistic" -> Sq(Div(Sq(Add(V("g"), One)), V("g")))
                   [] k = "linear" -> One
                   [] k = "shared" -> Div(One, Sq(Mul(Gamma0, Sub(One, Gamma0))))
DirOf(k) == CASE k = "shared" -> Div(Exp(Neg(V("delta"))), Sq(Add(One, GD))) [] OTHER -> V("v0")

\* (B) layout: rows returned for a request
Ids(r) == {r[i][1] : i \in 1..Len(r)}
RECURSIVE FirstSeen(_, _)
FirstSeen(r, seen) == IF r = <<>> THEN <<>> ELSE IF Head(r)[1] \in seen THEN FirstSeen(Tail(r), seen)
                      ELSE <<Head(r)[1]>> \o FirstSeen(Tail(r), seen \cup {Head(r)[1]})
AgesOf(r, id) == LET s == SelectSeq(r, LAMBDA x : x[1] = id) IN [i \in 1..Len(s) |-> s[i][2]]
\* dict form: one array per id (ids in insertion order), one row per requested age in the requested order (repeats kept)
DictRows(r) == LET ord == FirstSeen(r, {}) IN [i \in 1..Len(ord) |-> <<ord[i], AgesOf(r, ord[i])>>]
\* index form: exactly the requested rows in the requested order
Count(r, x) == Cardinality({i \in 1..Len(r) : r[i] = x})
RECURSIVE Repeat(_, _)
Repeat(x, n) == IF n = 0 THEN <<>> ELSE <<x>> \o Repeat(x, n - 1)
RECURSIVE IndexRowsAsBuilt(_, _)
IndexRowsAsBuilt(r, full) == IF r = <<>> THEN <<>> ELSE Repeat(Head(r), Count(full, Head(r))) \o IndexRowsAsBuilt(Tail(r), full)
IndexRows(r) == IF DupOK THEN r ELSE IndexRowsAsBuilt(r, r)     \* as built: the final join multiplies repeated rows
Rows(r, f) == IF f = "dict" THEN DictRows(r) ELSE IndexRows(r)

Init == /\ kind \in Kinds /\ req \in Requests /\ form \in Forms /\ xis \in XiSets
        /\ term = TermOf(kind) /\ rows = Rows(req, form) /\ msq = MetricSqOf(kind) /\ dir = DirOf(kind)
Next == UNCHANGED vars
Spec == Init /\ [][Next]_vars

\* estimates are returned for exactly the requested individuals and ages, in the requested order and layout
EchoIdsAndAges == IF form = "dict"
   THEN /\ {rows[i][1] : i \in 1..Len(rows)} = Ids(req)
        /\ \A i \in 1..Len(rows) : rows[i][2] = AgesOf(req, rows[i][1])
   ELSE rows = req
OrderPreserved == form = "dict" => \A i, j \in 1..Len(rows) : i < j =>
                     (CHOOSE a \in 1..Len(req) : req[a][1] = rows[i][1] /\ \A b \in 1..(a - 1) : req[b][1] # rows[i][1])
                   < (CHOOSE a \in 1..Len(req) : req[a][1] = rows[j][1] /\ \A b \in 1..(a - 1) : req[b][1] # rows[j][1])

\* (C) gauge: re-centring xi_i -= m, log v0 += m (m = mean xi); everything scaled by N to stay in the integers
RECURSIVE SumSeq(_)
SumSeq(s) == IF s = <<>> THEN 0 ELSE Head(s) + SumSeq(Tail(s))
NN == Len(xis)
XiAfter == [i \in 1..NN |-> NN * xis[i] - SumSeq(xis)]            \* N * xi'_i
LogV0Shift == SumSeq(xis)                                         \* N * (log v0' - log v0)  (joint: also N * (n_log_nu' - n_log_nu))
ZeroMean == SumSeq(XiAfter) = 0
\* the combinations every trajectory / event term depends on are unchanged: log v0 + xi_i  (and xi_i + n_log_nu)
GaugeInvariant == \A i \in 1..NN : XiAfter[i] + LogV0Shift = NN * xis[i]
=============================================================================
