SPECIFICATION Spec
CONSTANTS
  Slots = {1, 2}
  Algos = {"perso"}
  MaxOps = 3
PROPERTY Isolation
PROPERTY ReadOnlyOps
PROPERTY RoundTrip
PROPERTY FreshIsDefault
INVARIANT NestedMergeKeepsRest
CHECK_DEADLOCK FALSE
VIEW View
