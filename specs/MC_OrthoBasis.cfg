SPECIFICATION Spec
CONSTANTS
  Dims = {2, 3, 4, 5}
  MetricKinds = {"scalar", "vector", "matrix"}
INVARIANT NonEmpty
