SPECIFICATION Spec
CONSTANTS
  Kind = "pop"
  Blocks = {1}
  BlockSeq <- Seq1
  Z <- ZSet
  ALevels = {0, 1, 2}
  ULevels = {0, 1}
  L = 3
  LoNum = 1
  HiNum = 2
  Den = 5
  RandomOrder = FALSE
  MaxCalls = 6
INVARIANT OneDrawPerDecision
INVARIANT OneProposalPerDraw
INVARIANT WindowIsLastL
PROPERTY OnlyBlockTouched
PROPERTY AcceptIffBelow
PROPERTY DecisionLocal
PROPERTY RejectedIsSnapshot
PROPERTY StdOnlyAtMultiples
PROPERTY StdOneFactor
PROPERTY StdOnlyOutOfBand
CHECK_DEADLOCK FALSE
