---------------------------- MODULE MC_ModelLifecycle ----------------------------
(* Directed call histories for the spec -> code replay of ModelLifecycle.tla: pairs of histories that reach the same  *)
(* result terms through different routes (a query between two fits or not, a query before a save / load or not).      *)
EXTENDS ModelLifecycle
Free == <<>>
F(D, s) == <<"Fit", D, s>>
E == <<"Estimate">>
Sim(s) == <<"Simulate", s>>
PS(D, s) == <<"PersoScipy", D, s>>
PMo(D, s) == <<"PersoMode", D, s>>
PMe(D, s) == <<"PersoMean", D, s>>
Script1 == << F("D1", 0), E, Sim(0), PS("D2", 0), F("D1", 1), E, Sim(0), PS("D2", 0) >>
Script2 == << F("D1", 0), F("D1", 1), E, Sim(0), PS("D2", 0) >>
Script3 == << F("D1", 0), <<"Save">>, E, PMo("D2", 0), PMe("D2", 0), <<"Load">>, E, PMo("D2", 0), PMe("D2", 0), Sim(0) >>
Script4 == << F("D1", 0), <<"Save">>, <<"Load">>, E, PMo("D2", 0), PMe("D2", 0), Sim(0) >>
Script5 == << F("D2", 0), PS("D2", 0), PS("D1", 0), E, F("D2", 0), PS("D1", 0), E, PS("D2", 0) >>
PSC(D, s) == <<"PersoScipyCustom", D, s>>
Script9 == << F("D1", 0), PS("D2", 0), PSC("D2", 0), PS("D2", 0), <<"EstimateFrame">>, E, <<"SimulateTable", 0>>, Sim(0), PSC("D1", 0), PS("D1", 0) >>
Script10 == << F("D1", 0), PS("D1", 0), E, Sim(0), <<"SimulateTable", 0>>, <<"EstimateFrame">>, PS("D2", 0) >>
Script7 == << F("D1", 0), PMo("D2", 0), <<"FailedCall", "events_only">>, PMo("D2", 0), <<"FailedCall", "bad_ips">>, E, <<"FailedCall", "extra_feature">>, PMe("D1", 0) >>
Script8 == << F("D1", 0), PMo("D2", 0), E, PMe("D1", 0) >>
Script6 == << F("D2", 0), F("D2", 0), <<"BurnRng">>, PS("D2", 0), E, PS("D1", 0) >>
=============================================================================
