---------------------------- MODULE StateCacheTrace ----------------------------
(***************************************************************************)
(* Trace validation of recorded State operations (real fits, personalize,  *)
(* random API histories on real model graphs) against StateCache.          *)
(* Value domain collapsed to set / unset (Mk <- MkSet, Inds = {1}): the    *)
(* specification tracks the cached set and the fork pattern exactly; the   *)
(* numeric freshness oracle arrives as Probe events (stale must be empty). *)
(* One ndjson line per linearization point (return of a State method).     *)
(***************************************************************************)
EXTENDS StateCache, Json, IOUtils, SequencesExt

TraceLog == ndJsonDeserialize(IOEnv.TRACE_FILE)
VARIABLE l
tvars == <<vars, l>>

Ev == TraceLog[l]
IsEvent(name) == l <= Len(TraceLog) /\ Ev.op = name /\ l' = l + 1
SetVal(n) == IF n \in IndAxis THEN <<"i", [i \in Inds |-> Sc(0)]>> ELSE Sc(0)
AllMask == [i \in Inds |-> TRUE]

CachedSet(rec) == {n \in Nodes : rec.vals[n] # NONE}
ForkKeys(rec) == IF rec.fork = NONE THEN {} ELSE DOMAIN rec.fork
ForkSet(rec) == IF rec.fork = NONE THEN {} ELSE {k \in DOMAIN rec.fork : rec.fork[k] # NONE}

\* the projection logged after the operation must be the specification's post-state
Post(e) == /\ CachedSet(obj'[e.o]) = ToSet(e.cached)
           /\ (obj'[e.o].fork # NONE) = e.has_fork
           /\ ForkKeys(obj'[e.o]) = ToSet(e.fork_keys)
           /\ ForkSet(obj'[e.o]) = ToSet(e.fork_set)
           /\ obj'[e.o].mode = e.mode
           /\ err' = e.outcome

\* an object first observed mid-life (created before recording started): take its logged pattern as given
TAdopt == /\ IsEvent("Adopt") /\ ~Live(Ev.o)
          /\ obj' = [obj EXCEPT ![Ev.o] = [live |-> TRUE,
                  vals |-> [n \in Nodes |-> IF n \in ToSet(Ev.cached) THEN SetVal(n) ELSE NONE],
                  fork |-> IF Ev.has_fork THEN [k \in ToSet(Ev.fork_keys) |-> IF k \in ToSet(Ev.fork_set) THEN SetVal(k) ELSE NONE] ELSE NONE,
                  mode |-> Ev.mode]]
          /\ err' = "-" /\ UNCHANGED <<last, args>>
TNew == IsEvent("New") /\ New(Ev.o, Ev.mode) /\ Post(Ev)
TSetMode == IsEvent("SetMode") /\ SetMode(Ev.o, Ev.mode) /\ Post(Ev)
TAssign == /\ IsEvent("Assign")
           /\ IF Ev.n \in Settable
                THEN Assign(Ev.o, Ev.n, IF Ev.isnone THEN NONE ELSE SetVal(Ev.n))
                ELSE /\ UNCHANGED <<obj, last, args>> /\ err' = "input_error"   \* refused: not settable / unknown
           /\ Post(Ev)
TRead == /\ IsEvent("Read")
         /\ IF Ev.n \in Nodes THEN Read(Ev.o, Ev.n)
            ELSE /\ UNCHANGED <<obj, last, args>> /\ err' = "input_error"       \* unknown variable
         /\ Post(Ev)
\* a variable's own function raised (not a cache matter): whatever was computed before the failure stays cached
TReadFailed == /\ IsEvent("ReadFailed") /\ Ev.n \in Nodes
               /\ LET old == CachedSet(obj[Ev.o])  new == ToSet(Ev.cached) IN
                  /\ old \subseteq new /\ new \subseteq old \cup Anc(Ev.n)
                  /\ \A k \in new : Parents[k] \subseteq new
                  /\ obj' = [obj EXCEPT ![Ev.o].vals = [k \in Nodes |-> IF k \in new /\ k \notin old THEN SetVal(k) ELSE @[k]]]
               /\ err' = "-" /\ UNCHANGED <<last, args>>
TPrecompute == IsEvent("PrecomputeAll") /\ PrecomputeAll(Ev.o) /\ Post(Ev)
\* Ev.exact is the numeric oracle of C02: every entry of the fork domain is bit-equal to the old value where
\* reverted and to the current one elsewhere (RevertFullExact / PartialRevertExact at tensor level)
TRevertFull == IsEvent("RevertFull") /\ RevertFull(Ev.o) /\ Post(Ev) /\ Ev.exact
TRevertPartial == IsEvent("RevertPartial") /\ RevertPartial(Ev.o, AllMask) /\ Post(Ev) /\ Ev.exact
TClone == IsEvent("Clone") /\ Clone(Ev.src, Ev.o, Ev.dis, Ev.keep) /\ Post(Ev)
TClear == IsEvent("Clear") /\ Clear(Ev.o) /\ Post(Ev)
\* numeric oracle: no cached tensor differs from the from-scratch evaluation
TProbe == IsEvent("Probe") /\ Ev.stale = <<>> /\ UNCHANGED vars

TraceInit == /\ obj = [o \in Objs |-> Dead] /\ err = "-" /\ last = <<"Init", 1, NoNode>> /\ args = <<>> /\ l = 1
TraceNext == TAdopt \/ TNew \/ TReadFailed \/ TSetMode \/ TAssign \/ TRead \/ TPrecompute \/ TRevertFull \/ TRevertPartial \/ TClone \/ TClear \/ TProbe
TraceSpec == TraceInit /\ [][TraceNext]_tvars

\* acceptance: the whole trace was consumed (the trace spec is deterministic: one state per line)
TraceAccepted == TLCGet("stats").diameter - 1 = Len(TraceLog)
\* on rejection, print where: the longest matched prefix
Report == IF TLCGet("stats").diameter - 1 = Len(TraceLog) THEN TRUE
          ELSE PrintT(<<"REJECTED-AT", TLCGet("stats").diameter, Len(TraceLog)>>) /\ FALSE
=============================================================================
