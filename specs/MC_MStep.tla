---- MODULE MC_MStep ----
EXTENDS MStep
Vals == -2..2
MCXs == {<<a, b>> : a \in Vals, b \in Vals} \cup {<<a, b, c>> : a \in Vals, b \in Vals, c \in {-2, 0, 1}}
\* 2 individuals x 2 visits x 2 features; the second visit of individual 2 is padding (both features missing)
Keys == {<<i, v, f>> : i \in 1..2, v \in 1..2, f \in 1..2}
MCGrids == {g \in [Keys -> {"a", "b", "m"}] : g[<<2, 2, 1>>] = "m" /\ g[<<2, 2, 2>>] = "m"}
OneGrid == {[key \in Keys |-> IF key[1] = 2 /\ key[2] = 2 THEN "m" ELSE IF key[3] = 1 THEN "a" ELSE "b"]}
OneXs == {<<1, -1>>}
MOldSet == {-1, 0, 1}
====
