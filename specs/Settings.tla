---------------------------- MODULE Settings ----------------------------
(***************************************************************************)
(* Algorithm-settings objects (leaspy.algo.settings.AlgorithmSettings):    *)
(* construction from the shipped defaults + keyword overrides (recursive   *)
(* merge of nested dictionaries), caller-side mutation, save / load of the *)
(* JSON form, hand-written files, and creation of an algorithm object from *)
(* a settings object (which works on its own deep copy).                   *)
(* Parameters are a two-level tree: scalar entries  a  (shipped) and  b    *)
(* (not shipped: accepted with a warning), and one nested dictionary  d    *)
(* with shipped entries  x, y  and a non-shipped one  z.  Values are       *)
(* abstract: "def" (the shipped default) or small numbers.                 *)
(* Several settings objects live side by side: what one of them goes       *)
(* through must never show in another one, in the defaults, or in an       *)
(* algorithm built from it.                                                *)
(***************************************************************************)
EXTENDS Naturals, Sequences, FiniteSets, TLC
CONSTANTS Slots,     \* e.g. {1, 2}: settings objects held by the caller
          Algos,     \* algorithm names, e.g. {"perso", "fit"} (both shipped with a nested dictionary of annealing parameters)
          MaxOps
VARIABLES objs,      \* Slots -> settings record or NONE
          file,      \* the JSON file: NOFILE, a saved record, or a hand-written one
          algo,      \* parameters held by the last algorithm object built (its own copy), or NOALGO
          act, n
vars == <<objs, file, algo, act, n>>
NONE == [name |-> "none", seed |-> "null", params |-> [a |-> "none", b |-> "absent", d |-> <<>>]]   \* (a record, comparable with settings records)
NOALGO == [a |-> "none", b |-> "absent", d |-> <<>>]
NOFILE == <<"nofile">>
ABSENT == "absent"
Vals == {"v7", "v8"}
DVal == {"def"} \cup Vals
SubKeys == {"x", "y", "z"}
\* a nested dictionary: function from a subset of SubKeys to values
Dicts == UNION {[S -> DVal] : S \in SUBSET SubKeys}
DefaultD == [k \in {"x", "y"} |-> "def"]
DefaultParams == [a |-> "def", b |-> ABSENT, d |-> DefaultD]
Defaults(name) == [name |-> name, seed |-> "null", params |-> DefaultParams]

\* keyword overrides accepted by the constructor: a, b scalars or absent; d absent, a scalar (refused) or a dictionary
KwVals == {"v7"}     \* (one override value is enough in keyword arguments; caller-side mutations use both)
KwD == {[kind |-> "absent", val |-> <<>>], [kind |-> "scalar", val |-> <<>>]}
          \cup {[kind |-> "dict", val |-> f] : f \in UNION {[S -> KwVals] : S \in SUBSET SubKeys}}
Kwargs == [a : {ABSENT} \cup KwVals, b : {ABSENT} \cup KwVals, d : KwD, seed : {ABSENT, "3", "bad"}]

MergeD(ref, new) == [k \in (DOMAIN ref) \cup (DOMAIN new) |-> IF k \in DOMAIN new THEN new[k] ELSE ref[k]]
Refused(kw) == kw.d.kind = "scalar"                 \* a dictionary-valued parameter given something else than a dictionary
Merge(p, kw) == [a |-> IF kw.a = ABSENT THEN p.a ELSE kw.a,
                 b |-> IF kw.b = ABSENT THEN p.b ELSE kw.b,
                 d |-> IF kw.d.kind = "dict" THEN MergeD(p.d, kw.d.val) ELSE p.d]
SeedOf(old, s) == IF s = ABSENT THEN old ELSE IF s = "bad" THEN "null" ELSE s   \* a seed that is not an integer becomes null (warning)

Init == /\ objs = [s \in Slots |-> NONE] /\ file = NOFILE /\ algo = NOALGO /\ act = <<"Init">> /\ n = 0
Step == n' = n + 1

New(s, name, kw) ==
   /\ act' = <<"New", s, name, kw>> /\ Step /\ UNCHANGED <<file, algo>>
   /\ objs' = IF Refused(kw) THEN objs
              ELSE [objs EXCEPT ![s] = [name |-> name, seed |-> SeedOf("null", kw.seed), params |-> Merge(DefaultParams, kw)]]
\* the caller edits its own object: a scalar entry, or an entry of the nested dictionary
MutateTop(s, v) == /\ objs[s] # NONE /\ objs' = [objs EXCEPT ![s].params.a = v]
                   /\ act' = <<"MutateTop", s, v>> /\ Step /\ UNCHANGED <<file, algo>>
MutateNested(s, k, v) == /\ objs[s] # NONE /\ k \in DOMAIN objs[s].params.d
                         /\ objs' = [objs EXCEPT ![s].params.d[k] = v]
                         /\ act' = <<"MutateNested", s, k, v>> /\ Step /\ UNCHANGED <<file, algo>>
Save(s) == /\ objs[s] # NONE /\ file' = <<"saved", objs[s]>> /\ act' = <<"Save", s>> /\ Step /\ UNCHANGED <<objs, algo>>
\* hand-written files: kinds of content
HandKinds == {"no_name", "unknown_key", "loss_key", "partial", "nested_scalar"}
WriteHand(name, kind) == /\ file' = <<"hand", name, kind>> /\ act' = <<"WriteHand", name, kind>> /\ Step /\ UNCHANGED <<objs, algo>>
HandParams == [a |-> "v8", b |-> ABSENT, d |-> MergeD(DefaultD, [k \in {"y"} |-> "v7"])]     \* the "partial" file: a and d.y only
LoadResult == IF file[1] = "saved" THEN file[2]
              ELSE IF file[3] = "partial" THEN [name |-> file[2], seed |-> "null", params |-> HandParams]
              ELSE NONE                                                                   \* refused
Load(s) == /\ file # NOFILE /\ act' = <<"Load", s>> /\ Step /\ UNCHANGED <<file, algo>>
           /\ objs' = IF LoadResult = NONE THEN objs ELSE [objs EXCEPT ![s] = LoadResult]
\* building an algorithm: it holds a deep copy of the parameters and may resolve derived entries in ITS copy
\* (here: entry y of the nested dictionary, resolved when x was switched on with v7 and y is still the default)
Resolve(p) == IF "x" \in DOMAIN p.d /\ "y" \in DOMAIN p.d /\ p.d["x"] = "v7" /\ p.d["y"] = "def" THEN [p EXCEPT !.d["y"] = "resolved"] ELSE p
MakeAlgo(s) == /\ objs[s] # NONE /\ algo' = Resolve(objs[s].params) /\ act' = <<"MakeAlgo", s>> /\ Step /\ UNCHANGED <<objs, file>>

Next == /\ n < MaxOps
        /\ \/ \E s \in Slots, name \in Algos, kw \in Kwargs : New(s, name, kw)
           \/ \E s \in Slots, v \in Vals : MutateTop(s, v)
           \/ \E s \in Slots, k \in SubKeys, v \in Vals : MutateNested(s, k, v)
           \/ \E s \in Slots : Save(s) \/ Load(s) \/ MakeAlgo(s)
           \/ \E name \in Algos, kind \in HandKinds : WriteHand(name, kind)
Spec == Init /\ [][Next]_vars
View == <<objs, file, algo, n>>     \* act is an observation only
-----------------------------------------------------------------------------
\* an action on one slot never shows in another one
Isolation == [][\A s \in Slots : (act'[1] \in {"New", "MutateTop", "MutateNested", "Load"} /\ act'[2] # s) => objs'[s] = objs[s]]_vars
\* building an algorithm, saving, writing files never change a settings object
ReadOnlyOps == [][act'[1] \in {"Save", "MakeAlgo", "WriteHand"} => objs' = objs]_vars
\* what was saved is what is loaded
RoundTrip == [][(act'[1] = "Load" /\ file[1] = "saved") => objs'[act'[2]] = file[2]]_vars
\* a fresh object built without overrides is always the shipped default, whatever happened before
FreshIsDefault == [][(act'[1] = "New" /\ act'[4] = [a |-> ABSENT, b |-> ABSENT, d |-> [kind |-> "absent", val |-> <<>>], seed |-> ABSENT])
                       => objs'[act'[2]] = Defaults(act'[3])]_vars
\* overriding one entry of the nested dictionary keeps the other shipped entries
NestedMergeKeepsRest == \A s \in Slots : objs[s] # NONE => {"x", "y"} \subseteq DOMAIN objs[s].params.d
=============================================================================
