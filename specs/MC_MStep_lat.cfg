SPECIFICATION Spec
CONSTANTS
  Xs <- MCXs
  MOlds <- MOldSet
  Burns = {TRUE, FALSE}
  CellGrids <- OneGrid
INVARIANT VarNormalDominates
INVARIANT NoiseConsistent
