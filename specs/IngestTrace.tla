---------------------------- MODULE IngestTrace ----------------------------
(***************************************************************************)
(* Code -> spec: for each recorded table the canonical form produced by    *)
(* the real readers / Dataset (and again after to_pandas + re-ingestion)   *)
(* must equal Canon(table).  One TLC initial state per record.             *)
(***************************************************************************)
EXTENDS Ingest, Json, IOUtils

Log == ndJsonDeserialize(IOEnv.TRACE_FILE)
VARIABLE k
RowOf(r) == [id |-> r.id, age |-> r.age, vals |-> [f \in 1..NFeat |-> r.vals[f]]]
TInit == /\ k \in 1..Len(Log)
         /\ table = [i \in 1..Len(Log[k].rows) |-> RowOf(Log[k].rows[i])]
         /\ idkind = Log[k].idkind /\ text = Log[k].text
TNext == UNCHANGED <<k, vars>>
TSpec == TInit /\ [][TNext]_<<k, vars>>
Rec == Log[k]

SameVisits(obs, c, perm) ==      \* obs individual i corresponds to canonical individual perm[i]
   /\ Len(obs.visits) = Len(c.visits) /\ Len(obs.order) = Len(c.order)
   /\ \A i \in 1..Len(c.visits) : /\ obs.order[i] = c.order[perm[i]]
                                  /\ Len(obs.visits[i]) = Len(c.visits[perm[i]])
                                  /\ \A a \in 1..Len(obs.visits[i]) :
                                       /\ obs.visits[i][a].age = c.visits[perm[i]][a][1]
                                       /\ \A f \in 1..NFeat : obs.visits[i][a].vals[f] = c.visits[perm[i]][a][2][f]
   /\ obs.n_visits = c.n_visits /\ obs.n_obs = c.n_obs
Ident(n) == [i \in 1..n |-> i]
SameForm(obs, c) == SameVisits(obs, c, Ident(Len(c.order)))

\* identifiers sorted by name: the driver maps "B" to the smaller identifier of every typing
ByName(order) == SelectSeq(<<"B", "A">>, LAMBDA x : x \in {order[i] : i \in 1..Len(order)})
PermTo(order, target) == [i \in 1..Len(target) |-> CHOOSE j \in 1..Len(order) : order[j] = target[i]]

Conforms == LET c == Canon(table, idkind, text) IN
   /\ Rec.status = c.status
   /\ Rec.input_untouched                     \* the caller's table is never modified
   /\ Rec.csv_same                            \* the same table read from a CSV file: same verdict, same canonical form
   /\ c.status = "ok" => /\ SameForm(Rec.form, c)
                          /\ Rec.tensors_ok      \* padding, mask exactly on present entries, aligned ages / values, counters
\* to_pandas + re-ingestion: every individual keeps exactly its visits and values (single-precision rounding aside);
\* the individuals come back either in the original order or -- as built: to_pandas sorts its index -- sorted by identifier
RoundTrip == LET c == Canon(table, idkind, text) IN
   c.status = "ok" =>
      /\ Rec.roundtrip_ok
      /\ \/ SameForm(Rec.form2, c)
         \/ (Rec.form2.order = ByName(c.order) /\ SameVisits(Rec.form2, c, PermTo(c.order, ByName(c.order))))
Covered == IOEnv.EXPECT_COUNT = "0" \/ Cardinality({<<Log[i].rows, Log[i].idkind, Log[i].text>> : i \in 1..Len(Log)}) = atoi(IOEnv.EXPECT_COUNT)
=============================================================================
