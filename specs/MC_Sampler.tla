---- MODULE MC_Sampler ----
EXTENDS Sampler
Seq2 == <<1, 2>>
Seq3 == <<1, 2, 3>>
Seq1 == <<1>>
ZSet == {-1, 1}
====
