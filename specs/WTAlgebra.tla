---------------------------- MODULE WTAlgebra ----------------------------
(***************************************************************************)
(* Arithmetic and comparisons of masked (weighted) tensors                 *)
(* (leaspy.utils.weighted_tensor.WeightedTensor: __add__ ... __ge__,       *)
(* __neg__, __abs__, __pow__, _apply_operation).  A case is a weighted      *)
(* vector of two entries (small non-zero integers where observed, NaN or    *)
(* +inf where masked), an operator and an operand (a number, a plain        *)
(* tensor, a plain tensor with one more axis (broadcasting), a weighted      *)
(* tensor with the same weights, with no weights, or with other weights).    *)
(* Expected:                                                                 *)
(*   - the weights of the result are the weights of the weighted operand    *)
(*     (masked entries stay masked), two different maskings are refused;    *)
(*   - at observed entries the value is the operator applied to the two     *)
(*     entries, in the order written (reflected operators included);        *)
(*   - the weighted sum of the result is the sum over observed entries.     *)
(* Values are rationals <<num, den>>.                                       *)
(***************************************************************************)
EXTENDS Integers, Sequences, FiniteSets, TLC
CONSTANTS Fin,       \* non-zero integers allowed at observed entries
          Sent,      \* sentinels allowed at masked entries (subset of {NAN, PINF})
          Ops,       \* subset of the operator names below
          Kinds      \* subset of {"number", "tensor", "matrix", "wt_same", "wt_none", "wt_none_matrix", "wt_other"}  ("*matrix": an operand with one
                     \* more axis - the weighted vector is broadcast along it, and so must its weights be)
NAN == 1000000
PINF == 1000001
Binary == {"add", "radd", "sub", "rsub", "mul", "rmul", "div", "rdiv", "lt", "le", "eq", "ne", "gt", "ge"}
Unary == {"neg", "abs", "sq"}
VARIABLES a, w, op, kind, b,
          expv, expw, outcome     \* expected values at observed entries (rationals), expected weights, "ok" | "refused"
vars == <<a, w, op, kind, b, expv, expw, outcome>>

B(x, y, o) == CASE o = "add" -> <<x + y, 1>> [] o = "sub" -> <<x - y, 1>> [] o = "mul" -> <<x * y, 1>> [] o = "div" -> <<x, y>>
                [] o = "lt" -> <<IF x < y THEN 1 ELSE 0, 1>> [] o = "le" -> <<IF x <= y THEN 1 ELSE 0, 1>>
                [] o = "gt" -> <<IF x > y THEN 1 ELSE 0, 1>> [] o = "ge" -> <<IF x >= y THEN 1 ELSE 0, 1>>
                [] o = "eq" -> <<IF x = y THEN 1 ELSE 0, 1>> [] o = "ne" -> <<IF x # y THEN 1 ELSE 0, 1>>
\* the reflected operators apply the plain operator with the operands exchanged: other (op) self
Apply(x, y, o) == CASE o = "radd" -> B(y, x, "add") [] o = "rsub" -> B(y, x, "sub") [] o = "rmul" -> B(y, x, "mul")
                    [] o = "rdiv" -> B(y, x, "div")
                    [] o = "neg" -> <<-x, 1>> [] o = "abs" -> <<IF x < 0 THEN -x ELSE x, 1>> [] o = "sq" -> <<x * x, 1>>
                    [] OTHER -> B(x, y, o)
Observed == {i \in 1..2 : w[i] = 1}
ExpV == [i \in 1..2 |-> IF i \in Observed THEN Apply(a[i], b[i], op) ELSE <<0, 0>>]     \* <<0, 0>>: unspecified (masked)
Refused == kind = "wt_other" /\ op \in Binary
Init == /\ w \in [1..2 -> {0, 1}] /\ op \in Ops /\ kind \in Kinds
        /\ a \in [1..2 -> Fin \cup Sent] /\ \A i \in 1..2 : (w[i] = 1 <=> a[i] \in Fin)
        /\ b \in (IF kind = "number" THEN {<<2, 2>>} ELSE {<<2, 3>>, <<-2, 1>>})
        /\ (op \in Unary => (kind = "number" /\ b = <<2, 2>>))          \* canonical operand for unary operators
        /\ outcome = (IF Refused THEN "refused" ELSE "ok")
        /\ expv = ExpV /\ expw = w
Next == UNCHANGED vars
Spec == Init /\ [][Next]_vars

\* the weighted sum of the result: observed entries only
AddR(x, y) == <<x[1] * y[2] + y[1] * x[2], x[2] * y[2]>>
WSumExp == IF Observed = {} THEN <<0, 1>> ELSE IF Observed = {1} THEN expv[1] ELSE IF Observed = {2} THEN expv[2] ELSE AddR(expv[1], expv[2])
\* design facts
MaskedStayMasked == expw = w
ReflectedIsExchanged == \A i \in Observed : (op = "rsub" => expv[i] = <<b[i] - a[i], 1>>) /\ (op = "rdiv" => expv[i] = <<b[i], a[i]>>)
=============================================================================
