---- MODULE MC_Trajectory ----
EXTENDS Trajectory
A == "a"
B == "b"
Pairs == {<<i, t>> : i \in {"s1", "s2"}, t \in {"t1", "t2", "t3"}}
MCRequests == UNION {[1..n -> Pairs] : n \in 1..3}
MCRequests4 == UNION {[1..n -> Pairs] : n \in 1..4}      \* thorough tier
MCXis == {<<x, y, z>> : x \in -2..2, y \in -2..2, z \in {-3, 0, 1}}
OneXi == {<<0, 1>>}
OneReq == {<<<<"s1", "t1">>>>}
====
