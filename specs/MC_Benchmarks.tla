---- MODULE MC_Benchmarks ----
EXTENDS Benchmarks
Vals == {1, 2, 3, NaN}
Perm(n) == {p \in [1..n -> 1..n] : \A a, b \in 1..n : a # b => p[a] # p[b]}
HistsUpTo(N) == UNION {{[i \in 1..n |-> [age |-> p[i], val |-> v[i]]] : p \in Perm(n), v \in [1..n -> Vals]} : n \in 1..N}
MCHist == HistsUpTo(3)
MCHist4 == HistsUpTo(4)        \* thorough tier
AgeSeqs == {<<-1, 1>>, <<0, 1, 2>>, <<-2, 0, 1>>, <<1>>}
MCLme == UNION {{[ages |-> a, ys |-> y, b0 |-> b0, b1 |-> b1, c11 |-> c11, c12 |-> c12, c22 |-> 2, slope |-> s] :
                   y \in [1..Len(a) -> {-1, 0, 2}], b0 \in {0, 1}, b1 \in {-1, 1}, c11 \in {1, 3}, c12 \in {0, 1}, s \in BOOLEAN} : a \in AgeSeqs}
====
