---------------------------- MODULE Sampler ----------------------------
(***************************************************************************)
(* One Metropolis-within-Gibbs sampler object (leaspy.samplers.gibbs).     *)
(* Population kinds (Gibbs: one coordinate per block, FastGibbs: one row,  *)
(* Metropolis-Hastings: a single block): blocks are decided one after the  *)
(* other, each with its own proposal, evaluation, uniform draw, decision,  *)
(* full revert when rejected.  Individual kind: one proposal for all       *)
(* individuals, one uniform per individual, per-individual decision,       *)
(* partial revert of the rejected individuals.                             *)
(* Values are integers in units of the proposal noise; alpha and u are     *)
(* abstract ordered levels (u < alpha <=> accepted).                       *)
(***************************************************************************)
EXTENDS SamplerCore, TLC

CONSTANTS Kind,        \* "pop" | "ind"
          Blocks,      \* pop: set of blocks ; ind: set of individuals
          Z,           \* abstract proposal noises (integers)
          ALevels,     \* abstract alpha levels (integers) ; the top level stands for alpha >= 1
          ULevels,     \* abstract uniform levels (integers)
          L,           \* acceptation_history_length
          LoNum, HiNum, Den,   \* band  LoNum/Den < mean rate < HiNum/Den
          RandomOrder, \* random_order_dimension
          BlockSeq,    \* canonical order of the blocks
          MaxCalls
VARIABLES cur,      \* [Blocks -> Int] current value
          snap,     \* value before the pending proposal
          up, down, \* [Blocks -> Nat] : std[b] = s0 * (1+f)^up[b] * (1-f)^down[b]
          hist,     \* [Blocks -> window of booleans, length L]
          counter, calls,
          phase,    \* "idle" | "old" | "proposed" | "new" | "drawn"
          todo,     \* pop: blocks still to visit in this call
          blk,      \* pop: block under decision
          alpha, u, \* [Blocks -> level] for the pending decision(s)
          accNow,   \* decisions of the current call
          nRandn, nRand, nDecisions
vars == <<cur, snap, up, down, hist, counter, calls, phase, todo, blk, alpha, u, accNow, nRandn, nRand, nDecisions>>

Perms(S) == {s \in [1..Cardinality(S) -> S] : \A i, j \in 1..Cardinality(S) : i # j => s[i] # s[j]}
Zero == [b \in Blocks |-> 0]
NoAcc == [b \in Blocks |-> FALSE]
CmpOf(x, a) == IF x < a THEN "lt" ELSE "ge"

Init == /\ cur = Zero /\ snap = Zero /\ up = Zero /\ down = Zero
        /\ hist = [b \in Blocks |-> EmptyWindow(L)]
        /\ counter = 0 /\ calls = 0 /\ phase = "idle" /\ todo = <<>> /\ blk = CHOOSE b \in Blocks : TRUE
        /\ alpha = Zero /\ u = Zero /\ accNow = NoAcc
        /\ nRandn = 0 /\ nRand = 0 /\ nDecisions = 0

Begin(order) == /\ phase = "idle" /\ calls < MaxCalls
                /\ (~RandomOrder \/ Kind = "ind") => order = BlockSeq
                /\ todo' = order /\ phase' = "old" /\ accNow' = NoAcc
                /\ UNCHANGED <<cur, snap, up, down, hist, counter, calls, blk, alpha, u, nRandn, nRand, nDecisions>>

\* ---- population kinds: one block at a time
ProposePop(z) == /\ Kind = "pop" /\ phase = "old" /\ todo # <<>>
                 /\ blk' = Head(todo) /\ todo' = Tail(todo)
                 /\ snap' = cur /\ cur' = [cur EXCEPT ![Head(todo)] = @ + z]   \* only the block moves
                 /\ nRandn' = nRandn + 1 /\ phase' = "proposed"
                 /\ UNCHANGED <<up, down, hist, counter, calls, alpha, u, accNow, nRand, nDecisions>>
EvalPop(a) == /\ Kind = "pop" /\ phase = "proposed"
              /\ alpha' = [alpha EXCEPT ![blk] = a] /\ phase' = "new"
              /\ UNCHANGED <<cur, snap, up, down, hist, counter, calls, todo, blk, u, accNow, nRandn, nRand, nDecisions>>
DrawPop(x) == /\ Kind = "pop" /\ phase = "new"
              /\ u' = [u EXCEPT ![blk] = x] /\ nRand' = nRand + 1 /\ phase' = "drawn"   \* a draw whatever alpha is
              /\ UNCHANGED <<cur, snap, up, down, hist, counter, calls, todo, blk, alpha, accNow, nRandn, nDecisions>>
DecidePop == /\ Kind = "pop" /\ phase = "drawn"
             /\ LET ok == Accepts(CmpOf(u[blk], alpha[blk])) IN
                /\ accNow' = [accNow EXCEPT ![blk] = ok]
                /\ cur' = IF ok THEN cur ELSE snap                 \* full revert
             /\ nDecisions' = nDecisions + 1 /\ phase' = "old"
             /\ UNCHANGED <<snap, up, down, hist, counter, calls, todo, blk, alpha, u, nRandn, nRand>>

\* ---- individual kind: everybody at once
ProposeInd(zs) == /\ Kind = "ind" /\ phase = "old" /\ todo # <<>>
                  /\ todo' = <<>> /\ snap' = cur /\ cur' = [b \in Blocks |-> cur[b] + zs[b]]
                  /\ nRandn' = nRandn + 1 /\ phase' = "proposed"
                  /\ UNCHANGED <<up, down, hist, counter, calls, blk, alpha, u, accNow, nRand, nDecisions>>
EvalInd(as) == /\ Kind = "ind" /\ phase = "proposed" /\ alpha' = as /\ phase' = "new"
               /\ UNCHANGED <<cur, snap, up, down, hist, counter, calls, todo, blk, u, accNow, nRandn, nRand, nDecisions>>
DrawInd(xs) == /\ Kind = "ind" /\ phase = "new" /\ u' = xs /\ nRand' = nRand + 1 /\ phase' = "drawn"
               /\ UNCHANGED <<cur, snap, up, down, hist, counter, calls, todo, blk, alpha, accNow, nRandn, nDecisions>>
DecideInd == /\ Kind = "ind" /\ phase = "drawn"
             /\ accNow' = [b \in Blocks |-> Accepts(CmpOf(u[b], alpha[b]))]
             /\ cur' = [b \in Blocks |-> IF Accepts(CmpOf(u[b], alpha[b])) THEN cur[b] ELSE snap[b]]   \* revert(~accepted)
             /\ nDecisions' = nDecisions + Cardinality(Blocks) /\ phase' = "old"
             /\ UNCHANGED <<snap, up, down, hist, counter, calls, todo, blk, alpha, u, nRandn, nRand>>

End == /\ phase = "old" /\ todo = <<>>
       /\ LET h2 == [b \in Blocks |-> Shift(hist[b], accNow[b])]
              c2 == counter + 1
          IN /\ hist' = h2 /\ counter' = c2
             /\ down' = [b \in Blocks |-> IF AdaptDir(c2, h2[b], L, LoNum, HiNum, Den) = "down" THEN down[b] + 1 ELSE down[b]]
             /\ up'   = [b \in Blocks |-> IF AdaptDir(c2, h2[b], L, LoNum, HiNum, Den) = "up" THEN up[b] + 1 ELSE up[b]]
       /\ calls' = calls + 1 /\ phase' = "idle"
       /\ UNCHANGED <<cur, snap, todo, blk, alpha, u, accNow, nRandn, nRand, nDecisions>>

ABegin == \E o \in Perms(Blocks) : Begin(o)
AProposePop == \E z \in Z : ProposePop(z)
AEvalPop == \E a \in ALevels : EvalPop(a)
ADrawPop == \E x \in ULevels : DrawPop(x)
AProposeInd == \E zs \in [Blocks -> Z] : ProposeInd(zs)
AEvalInd == \E as \in [Blocks -> ALevels] : EvalInd(as)
ADrawInd == \E xs \in [Blocks -> ULevels] : DrawInd(xs)
Next == ABegin \/ AProposePop \/ AEvalPop \/ ADrawPop \/ DecidePop \/ AProposeInd \/ AEvalInd \/ ADrawInd \/ DecideInd \/ End
Spec == Init /\ [][Next]_vars
-----------------------------------------------------------------------------
\* C03: a uniform draw is consumed for every decision (the individual sampler makes one call returning one uniform each)
OneDrawPerDecision == IF Kind = "pop" THEN (phase \in {"old", "idle"} => nRand = nDecisions)
                      ELSE (phase \in {"old", "idle"} => nRand * Cardinality(Blocks) = nDecisions)
OneProposalPerDraw == (phase \in {"old", "idle"}) => nRandn = nRand
\* C03: a proposal moves the targeted block only
OnlyBlockTouched == [][ (Kind = "pop" /\ phase = "old" /\ phase' = "proposed") => \A b \in Blocks \ {blk'} : cur'[b] = cur[b] ]_vars
\* C03: accepted exactly when the draw is below alpha
AcceptIffBelow == [][ (phase = "drawn" /\ phase' = "old") =>
                        \A b \in (IF Kind = "pop" THEN {blk} ELSE Blocks) : accNow'[b] <=> (u[b] < alpha[b]) ]_vars
\* C03 / C07: one individual's outcome depends on its own alpha and draw only
DecisionLocal == [][ (Kind = "ind" /\ phase = "drawn" /\ phase' = "old") =>
                        \A b \in Blocks : cur'[b] = (IF u[b] < alpha[b] THEN cur[b] ELSE snap[b]) ]_vars
\* C02: rejected = snapshot, accepted = proposed
RejectedIsSnapshot == [][ (Kind = "pop" /\ phase = "drawn" /\ phase' = "old") =>
                            ((~accNow'[blk] => cur' = snap) /\ (accNow'[blk] => cur' = cur)) ]_vars
\* C19: proposal scales change only at multiples of the window length, by one factor, only for out-of-band blocks
StdOnlyAtMultiples == [][ (up' # up \/ down' # down) => (counter' % L = 0 /\ counter' = counter + 1) ]_vars
StdOneFactor == [][ \A b \in Blocks : (up'[b] - up[b]) + (down'[b] - down[b]) \in {0, 1} ]_vars
StdOnlyOutOfBand == [][ \A b \in Blocks : /\ (down'[b] # down[b] => Den * Count(hist'[b]) < LoNum * L)
                                           /\ (up'[b] # up[b] => Den * Count(hist'[b]) > HiNum * L) ]_vars
WindowIsLastL == \A b \in Blocks : Len(hist[b]) = L
=============================================================================
