---------------------------- MODULE SaveLoadTrace ----------------------------
EXTENDS SaveLoad, Json, IOUtils, Sequences
TLog == ndJsonDeserialize(IOEnv.TRACE_FILE)
VARIABLE k
TInit == /\ k \in 1..Len(TLog) /\ kind = TLog[k].kind /\ dim = TLog[k].dim /\ dimgiven = TLog[k].dimgiven /\ src = TLog[k].src
         /\ noise = TLog[k].noise /\ feats = TLog[k].feats /\ iname = TLog[k].iname /\ origin = TLog[k].origin
TNext == UNCHANGED <<k, vars>>
TSpec == TInit /\ [][TNext]_<<k, vars>>
Rec == TLog[k]
Conforms == LET e == Expected IN
   /\ Rec.status = "ok"
   /\ Rec.pop_at_mode = e.pop_at_mode          \* after the fit the population variables are the modes of their priors
   /\ Rec.derived_consistent                    \* derived quantities (velocities, mixing matrix, trajectories) agree with the saved parameters
   /\ Rec.save_ok = e.save_ok
   /\ Rec.src_resolved = e.src_resolved
   /\ Rec.load_ok = e.load_ok
   /\ e.load_ok => (Rec.same_params /\ Rec.same_hyper /\ Rec.same_traj /\ Rec.resave_same = e.resave_same)
=============================================================================
