---------------------------- MODULE DataContainerTrace ----------------------------
(* code -> spec: each enumerated chain was performed on a real Data object; after each step everything the container exposes *)
(* must describe the expected identifier sequence.                                                                          *)
EXTENDS MC_DataContainer, Json, IOUtils   \* (the constants of the enumeration: MCBase, MCOps)
TLog == ndJsonDeserialize(IOEnv.TRACE_FILE)
VARIABLE k
OpOf(o) == CASE o.op = "slice" -> <<"slice", o.lo, o.hi, o.st>> [] o.op = "rev" -> <<"rev">> [] o.op = "long" -> <<"long">>
             [] o.op = "ints" -> <<"ints", o.arg>> [] o.op = "ids" -> <<"ids", o.arg>>
TInit == k \in 1..Len(TLog) /\ ops = [i \in 1..Len(TLog[k].ops) |-> OpOf(TLog[k].ops[i])] /\ res = Results(Base, ops)
TNext == UNCHANGED <<k, vars>>
TSpec == TInit /\ [][TNext]_<<k, vars>>
Rec == TLog[k]
Conforms == /\ Rec.status = "ok"
            /\ Len(Rec.steps) = Len(res)
            /\ \A i \in 1..Len(res) : LET s == Rec.steps[i] IN
                 /\ s.iter = res[i]                \* iteration order
                 /\ s.by_int = res[i]              \* data[0], data[1], ...
                 /\ s.by_id_ok                     \* data[id] is the individual id, for every member
                 /\ Elems(s.members) = Elems(res[i])              \* membership test over the base identifiers
                 /\ s.n = Len(res[i])
                 /\ s.table = res[i]               \* identifiers of the exported table, in order of appearance
                 /\ s.rows_ok                      \* the exported rows are the individuals' own rows, n_visits is their number
                 /\ s.dataset = res[i]             \* identifiers of the tensor dataset built from the container
Covered == IOEnv.EXPECT_COUNT = "0" \/ Cardinality({TLog[i].key : i \in 1..Len(TLog)}) = atoi(IOEnv.EXPECT_COUNT)
=============================================================================
