---------------------------- MODULE IndParams ----------------------------
(***************************************************************************)
(* Individual-parameter containers (leaspy.io.outputs.IndividualParameters)*)
(* and their conversions.  A container is a sequence of identifiers and a  *)
(* set of parameter declarations [name, shape]; a conversion path is one   *)
(* of  "df" (to_dataframe / from_dataframe), "pt" (to_pytorch /            *)
(* from_pytorch), "csv", "json" (save / load), "json_sorted" (json written  *)
(* with sorted keys: the order of the file's object differs from the order *)
(* of its identifier list).                                                *)
(* Shapes: "scalar" (), "len1" (1,), "len2" (2,), "len12" (12,): more than  *)
(* ten components, so that text order and numeric order of the columns     *)
(* of the table form differ.                                               *)
(* Named deviations of the implementation from the lossless design:        *)
(*   ScalarOK     FALSE as built: scalar-valued parameters cannot go       *)
(*                through the table form (IndexError) and become length-1  *)
(*                through the tensor form                                  *)
(*   UnderscoreOK FALSE as built: a name containing "_" is cut at its      *)
(*                first underscore when read back from a table             *)
(***************************************************************************)
EXTENDS Naturals, Sequences, FiniteSets, TLC
CONSTANTS IdSeqs, Names, Shapes, Paths, MaxParams, ScalarOK, UnderscoreOK
VARIABLES ids, params, path
vars == <<ids, params, path>>
Decls == [name : Names, shape : Shapes]
Init == /\ ids \in IdSeqs /\ path \in Paths
        /\ params \in {P \in SUBSET Decls : /\ Cardinality(P) \in 1..MaxParams
                                            /\ \A a, b \in P : a.name = b.name => a = b}
Next == UNCHANGED vars
Spec == Init /\ [][Next]_vars

HasUnderscore(n) == n \in {"my_p"}
Prefix(n) == IF n = "my_p" THEN "my" ELSE n
TableLike(p) == p \in {"df", "csv"}

\* expected result of converting there and back
Expected(P, p) ==
   IF TableLike(p) /\ ~ScalarOK /\ \E d \in P : d.shape = "scalar"
     THEN [status |-> "IndexError", decls |-> {}]
   ELSE [status |-> "ok",
         decls |-> {[name |-> IF TableLike(p) /\ ~UnderscoreOK THEN Prefix(d.name) ELSE d.name,
                     shape |-> IF d.shape = "scalar" /\ p = "pt" /\ ~ScalarOK THEN "len1" ELSE d.shape] : d \in P}]

Lossless == Expected(params, path) = [status |-> "ok", decls |-> params]
\* the conversions are lossless exactly outside the two named deviations
LosslessExceptNamed == Lossless \/ (\E d \in params : d.shape = "scalar" /\ path \notin {"json", "json_sorted"})
                                \/ (\E d \in params : HasUnderscore(d.name) /\ TableLike(path))
=============================================================================
