---------------------------- MODULE DataContainer ----------------------------
(***************************************************************************)
(* The Data container as an ordered collection of individuals (beyond the  *)
(* listed properties; leaspy.io.data.data.Data).  A container is the       *)
(* sequence of its identifiers in order of first appearance; selections    *)
(* produce new containers.  A case is a chain of selections applied to the *)
(* base container; the specification computes the expected identifier      *)
(* sequence after each step, the driver performs the chain on a real Data  *)
(* object and compares, after each step, everything the container exposes  *)
(* (iteration order, integer indexing, identifier indexing, membership,    *)
(* counters, the exported table, the tensor dataset built from it).        *)
(*   <<"slice", lo, hi, st>>   data[lo:hi:st]      (0-based, st > 0)       *)
(*   <<"rev">>                 data[::-1]                                  *)
(*   <<"ints", <<i, ...>>>>    data[[i, ...]]      (0-based positions)     *)
(*   <<"ids", <<id, ...>>>>    data[[id, ...]]                             *)
(*   <<"long">>                data.extract_longitudinal_only()            *)
(***************************************************************************)
EXTENDS Naturals, Sequences, FiniteSets, TLC
CONSTANTS Base,      \* sequence of distinct identifiers
          Ops,       \* set of selections
          MaxLen     \* length of the chains
VARIABLES ops, res   \* the chain and the expected container after each step
vars == <<ops, res>>

RECURSIVE Stride(_, _, _)
Stride(lo, hi, st) == IF lo >= hi THEN <<>> ELSE <<lo>> \o Stride(lo + st, hi, st)      \* 0-based positions lo, lo+st, ... < hi
Min2(a, b) == IF a < b THEN a ELSE b
Distinct(s) == \A a, b \in 1..Len(s) : a # b => s[a] # s[b]
Elems(s) == {s[i] : i \in 1..Len(s)}
Pick(c, idx) == [k \in 1..Len(idx) |-> c[idx[k] + 1]]
Valid(c, op) == CASE op[1] = "slice" -> TRUE
                  [] op[1] = "rev" -> TRUE
                  [] op[1] = "long" -> TRUE
                  [] op[1] = "ints" -> Distinct(op[2]) /\ \A k \in 1..Len(op[2]) : op[2][k] < Len(c)
                  [] op[1] = "ids" -> Distinct(op[2]) /\ Elems(op[2]) \subseteq Elems(c)
Apply(c, op) == CASE op[1] = "slice" -> Pick(c, Stride(Min2(op[2], Len(c)), Min2(op[3], Len(c)), op[4]))
                  [] op[1] = "rev" -> [k \in 1..Len(c) |-> c[Len(c) + 1 - k]]
                  [] op[1] = "long" -> c
                  [] op[1] = "ints" -> Pick(c, op[2])
                  [] op[1] = "ids" -> op[2]
RECURSIVE Results(_, _)
Results(c, chain) == IF chain = <<>> THEN <<>> ELSE LET d == Apply(c, Head(chain)) IN <<d>> \o Results(d, Tail(chain))
RECURSIVE ChainValid(_, _)
ChainValid(c, chain) == chain = <<>> \/ (Valid(c, Head(chain)) /\ Apply(c, Head(chain)) # <<>> /\ ChainValid(Apply(c, Head(chain)), Tail(chain)))
Chains == UNION {[1..n -> Ops] : n \in 1..MaxLen}
Init == ops \in {ch \in Chains : ChainValid(Base, ch)} /\ res = Results(Base, ops)
Next == UNCHANGED vars
Spec == Init /\ [][Next]_vars

-----------------------------------------------------------------------------
\* every container is a duplicate-free selection of the base identifiers
Wellformed == \A k \in 1..Len(res) : Distinct(res[k]) /\ Elems(res[k]) \subseteq Elems(Base)
\* slices and the longitudinal extraction keep the relative order of the individuals
IsSubsequence(s, c) == \E f \in [1..Len(s) -> 1..Len(c)] : (\A k \in 1..Len(s) : c[f[k]] = s[k]) /\ (\A a, b \in 1..Len(s) : a < b => f[a] < f[b])
Prev(k) == IF k = 1 THEN Base ELSE res[k - 1]
OrderKept == \A k \in 1..Len(res) : ops[k][1] \in {"slice", "long"} => IsSubsequence(res[k], Prev(k))
\* reversing twice gives the container back
RevInvolution == \A k \in 2..Len(res) : (ops[k][1] = "rev" /\ ops[k - 1][1] = "rev") => res[k] = Prev(k - 1)
\* a selection by identifiers answers in the order of the request
RequestOrder == \A k \in 1..Len(res) : ops[k][1] = "ids" => res[k] = ops[k][2]
=============================================================================
