---------------------------- MODULE MixStep ----------------------------
(***************************************************************************)
(* Maximization rules of the mixture model (leaspy.models.utilities:       *)
(* compute_probs_from_state, compute_ind_param_mean_from_suff_stats_mixture,*)
(* compute_ind_param_std_from_suff_stats_mixture(_burn_in), declared by    *)
(* ModelParameter.for_probs / for_ind_mean_mixture / for_ind_std_mixture), *)
(* evaluated exactly on small integer cases, two clusters.                 *)
(*   xs    latent values of the individuals (integers)                     *)
(*   ws    responsibility of cluster 1 for each individual, in W-ths       *)
(*         (cluster 2 has the rest: responsibilities sum to one)           *)
(*   mold  the two cluster means held BEFORE the step                      *)
(*   burn  memory-less phase?                                              *)
(* Rationals are pairs <<num, den>>.                                       *)
(***************************************************************************)
EXTENDS Integers, Sequences, FiniteSets, TLC
CONSTANTS Xs, W, Ws, MOlds, Burns
VARIABLES xs, ws, mold, burn,
          far    \* TRUE: the first individual with an even split is "beyond the floor" - its regularity exceeds 100 for every
                 \* cluster (by different amounts); the rules read the responsibilities as softmax(max(-regularity, -100)), the
                 \* SAME floored responsibilities in every rule, so that this individual counts as evenly split everywhere
vars == <<xs, ws, mold, burn, far>>
Init == /\ xs \in Xs /\ ws \in Ws /\ Len(ws) = Len(xs) /\ mold \in MOlds /\ burn \in Burns
        /\ far \in BOOLEAN /\ (far => \E i \in 1..Len(ws) : 2 * ws[i] = W)
Next == UNCHANGED vars
Spec == Init /\ [][Next]_vars

Clusters == {1, 2}
RECURSIVE SumSeq(_)
SumSeq(s) == IF s = <<>> THEN 0 ELSE Head(s) + SumSeq(Tail(s))
N == Len(xs)
Wt(i, c) == IF c = 1 THEN ws[i] ELSE W - ws[i]            \* responsibility of cluster c for individual i, times W
SumW(c) == SumSeq([i \in 1..N |-> Wt(i, c)])
SumWX(c) == SumSeq([i \in 1..N |-> Wt(i, c) * xs[i]])
S1 == SumSeq(xs)
S2 == SumSeq([i \in 1..N |-> xs[i] * xs[i]])

\* mixture probabilities: the mean cluster responsibilities
ProbRule(c) == <<SumW(c), N * W>>
\* cluster means: the responsibility-weighted average of the latent values
MeanRule(c) == <<SumWX(c), SumW(c)>>
\* cluster dispersions after the memory-less phase: mean squared deviation of the latent values from the PRE-step mean of
\* the cluster (as built: every individual counts the same, whatever its responsibility)
VarRuleNormal(c) == <<S2 - 2 * mold[c] * S1 + N * mold[c] * mold[c], N>>
\* memory-less phase: unbiased sample variance of the latent values, the same for every cluster
VarRuleBurnIn == <<N * S2 - S1 * S1, N * (N - 1)>>
VarRule(c) == IF burn THEN VarRuleBurnIn ELSE VarRuleNormal(c)

Admissible == N >= 2 /\ \A c \in Clusters : SumW(c) > 0

-----------------------------------------------------------------------------
\* "mixture probabilities [are] the mean cluster responsibilities (summing to one)"
ProbsSumToOne == ProbRule(1)[1] + ProbRule(2)[1] = ProbRule(1)[2] /\ ProbRule(1)[2] = ProbRule(2)[2]
\* a cluster mean is a convex combination of the latent values
Min(S) == CHOOSE x \in S : \A y \in S : x <= y
Max(S) == CHOOSE x \in S : \A y \in S : x >= y
Vals == {xs[i] : i \in 1..N}
MeanIsConvex == Admissible => \A c \in Clusters : Min(Vals) * SumW(c) <= SumWX(c) /\ SumWX(c) <= Max(Vals) * SumW(c)
\* the probability-weighted cluster means give back the plain mean of the latent values
TotalMean == SumWX(1) + SumWX(2) = W * S1
\* equal responsibilities: every cluster mean is the plain mean
EqualSplit == (Admissible /\ \A i \in 1..N : 2 * ws[i] = W) => \A c \in Clusters : SumWX(c) * N = S1 * SumW(c)
\* dispersions are never negative
VarNonNegative == N >= 2 => \A c \in Clusters : VarRule(c)[1] >= 0
=============================================================================
