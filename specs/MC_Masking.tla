---- MODULE MC_Masking ----
EXTENDS Masking
AllSent == {NAN, PINF, HUGE}
====
