SPECIFICATION Spec
CONSTANTS
  ModelKinds = {"logistic", "linear", "shared_speed_logistic", "joint"}
  Dims = {1, 2, 3}
  DimGiven = {TRUE, FALSE}
  Srcs = {0, 1, 2, 99}
  Noises = {"default", "scalar", "diag"}
  Feats = {"named", "default", "int_labels", "odd_names"}
  INames = {"kind", "custom"}
  Origins = {"fit", "fit_mem2", "fit_mem3", "hand", "edited", "refit"}
  NameIsKindOK = TRUE
  UniSourcesOK = TRUE
  ScalarShapeOK = TRUE
INVARIANT SurvivesSaveLoad
