---------------------------- MODULE AnnealInd ----------------------------
(***************************************************************************)
(* The plateau-annealing counter of Saem.tla (action Cool, TempAt) for     *)
(* ARBITRARY parameters, as an integer transition system for Apalache:     *)
(* an inductive invariant shows, for every number of iterations, every     *)
(* number of annealing iterations, every number of plateaus >= 2 and every *)
(* initial temperature > 1 (accepted configurations: period >= 1), that    *)
(*   - the number of decrements is floor(min(k, nAnn) / period),           *)
(*   - the temperature never rises and never goes below 1,                 *)
(*   - it is exactly 1 from the end of the annealing phase on.             *)
(* TLC checks the same statements on Saem.tla for small constants only.    *)
(*   apalache-mc check --init=IndInit --inv=IndInv --length=0 AnnealInd.tla *)
(*   apalache-mc check --init=IndInit --inv=IndInv --length=1 AnnealInd.tla *)
(*   apalache-mc check --init=IndInit --inv=Safe   --length=0 AnnealInd.tla *)
(*   apalache-mc check --init=Init    --inv=IndInv --length=0 AnnealInd.tla *)
(***************************************************************************)
EXTENDS Integers
VARIABLES
  \* @type: Int;
  n,        \* iterations of the run
  \* @type: Int;
  nAnn,     \* iterations of the annealing phase (0..n)
  \* @type: Int;
  p,        \* number of plateaus (>= 2)
  \* @type: Int;
  period,   \* nAnn \div (p - 1)  (accepted configurations: >= 1), as Period(c) of Saem.tla
  \* @type: Int;
  tnum,     \* initial temperature tnum / tden > 1
  \* @type: Int;
  tden,
  \* @type: Int;
  k,        \* current iteration
  \* @type: Int;
  j         \* decrements applied so far

Params == /\ n >= 1 /\ nAnn >= 0 /\ nAnn <= n /\ p >= 2
          /\ period >= 1 /\ period * (p - 1) <= nAnn /\ nAnn < (period + 1) * (p - 1)       \* period = nAnn \div (p - 1)
          /\ tden >= 1 /\ tnum > tden
Any == /\ n \in Int /\ nAnn \in Int /\ p \in Int /\ period \in Int /\ tnum \in Int /\ tden \in Int
Init == Any /\ k = 0 /\ j = 0 /\ Params
Next == /\ k < n /\ k' = k + 1
        /\ j' = IF k' <= nAnn /\ k' % period = 0 THEN j + 1 ELSE j
        /\ UNCHANGED <<n, nAnn, p, period, tnum, tden>>

Min(a, b) == IF a < b THEN a ELSE b
\* the inductive invariant: j = floor(min(k, nAnn) / period)
IndInv == /\ Params /\ k >= 0 /\ k <= n /\ j >= 0
          /\ j * period <= Min(k, nAnn) /\ Min(k, nAnn) < (j + 1) * period
IndInit == Any /\ k \in Int /\ j \in Int /\ IndInv

\* temperature max(T0 - j (T0 - 1)/(p - 1), 1) as a fraction num / den (den > 0), literally 1 once j >= p - 1
Num(jj) == tnum * (p - 1) - jj * (tnum - tden)
Den == tden * (p - 1)
IsOne(jj) == jj >= p - 1 \/ Num(jj) <= Den
\* consequences of the inductive invariant
Safe == /\ (k >= nAnn => j >= p - 1)                \* hence IsOne(j): the temperature is exactly 1 after the annealing phase
        /\ (k >= nAnn => IsOne(j))
        /\ (~IsOne(j) => Num(j) > Den)                \* never below 1
        /\ Num(j + 1) <= Num(j)                       \* one more decrement never raises the temperature
\* deliberately false (the harness requires Apalache to refute it: the obligations above are not vacuous)
Bogus == j < p - 1
=============================================================================
