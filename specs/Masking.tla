---------------------------- MODULE Masking ----------------------------
(***************************************************************************)
(* Extended-real algebra of masked (weighted) tensors                      *)
(* (leaspy.utils.weighted_tensor) and the Gaussian attachment pipeline.    *)
(* Entries are small integers or the sentinels NAN / PINF / HUGE (a finite *)
(* number whose square overflows single precision).  Weights are 0 / 1.    *)
(***************************************************************************)
EXTENDS Integers, Sequences, FiniteSets, TLC
CONSTANTS NE,      \* number of entries of a vector
          Fin,     \* finite values
          Sent     \* subset of {NAN, PINF, HUGE} allowed at masked entries
NAN == 1000000
PINF == 1000001
HUGE == 1000002
IsFin(x) == x \notin {NAN, PINF, HUGE}
Mul(a, b) == IF a = NAN \/ b = NAN THEN NAN
             ELSE IF a \in {PINF, HUGE} \/ b \in {PINF, HUGE} THEN (IF a = 0 \/ b = 0 THEN (IF a = HUGE \/ b = HUGE THEN 0 ELSE NAN) ELSE PINF)
             ELSE a * b
Add(a, b) == IF a = NAN \/ b = NAN THEN NAN ELSE IF a \in {PINF, HUGE} \/ b \in {PINF, HUGE} THEN (IF a = HUGE /\ IsFin(b) THEN HUGE ELSE IF b = HUGE /\ IsFin(a) THEN HUGE ELSE PINF) ELSE a + b
Sub(a, b) == IF a = NAN \/ b = NAN THEN NAN ELSE IF b \in {PINF, HUGE} THEN (IF a \in {PINF, HUGE} THEN NAN ELSE PINF) ELSE IF a \in {PINF, HUGE} THEN a ELSE a - b
RECURSIVE SumSeq(_)
SumSeq(s) == IF s = <<>> THEN 0 ELSE Add(Head(s), SumSeq(Tail(s)))

\* WeightedTensor.filled / weighted_value / wsum (as built: fill with 0 BEFORE weighting; empty aggregates get fill_value)
Filled(v, w, f) == [i \in 1..NE |-> IF w[i] = 0 THEN f ELSE v[i]]
WeightedValue(v, w) == LET x == Filled(v, w, 0) IN [i \in 1..NE |-> Mul(w[i], x[i])]
WSum(v, w, fillEmpty) == LET s == SumSeq(WeightedValue(v, w))  n == SumSeq(w)
                         IN <<IF n = 0 THEN fillEmpty ELSE s, n>>
\* binary operation with a plain tensor: values combined entry-wise, weights kept
MulBy(v, w, c) == <<[i \in 1..NE |-> Mul(v[i], c[i])], w>>
\* Gaussian attachment residual pipeline: sum_i w_i (y_i - m_i)^2 where the model m is computed from masked times
Model(t, w) == WeightedValue([i \in 1..NE |-> Mul(2, t[i])], w)       \* `model` is returned as weighted_value (0 where masked)
Attach(y, t, w) == LET m == Model(t, w)
                       r == [i \in 1..NE |-> Sub(y[i], m[i])]
                   IN WSum([i \in 1..NE |-> Mul(r[i], r[i])], w, 0)

VARIABLES y, t, w, y2, t2
vars == <<y, t, w, y2, t2>>
Vals == Fin \cup Sent
Same(a, b) == \A i \in 1..NE : w[i] = 1 => a[i] = b[i]
Init == /\ w \in [1..NE -> {0, 1}]
        /\ y \in [1..NE -> Vals] /\ y2 \in [1..NE -> Vals] /\ t \in [1..NE -> Vals] /\ t2 \in [1..NE -> Vals]
        /\ Same(y, y2) /\ Same(t, t2)
        /\ \A i \in 1..NE : w[i] = 1 => (y[i] \in Fin /\ t[i] \in Fin)      \* observed entries are finite numbers
Next == UNCHANGED vars
Spec == Init /\ [][Next]_vars
\* twins that agree on the observed entries give the same aggregates, whatever sits at masked entries
NonInterference == /\ Attach(y, t, w) = Attach(y2, t2, w)
                   /\ WSum(y, w, 0) = WSum(y2, w, 0)
                   /\ WeightedValue(y, w) = WeightedValue(y2, w)
CountsObserved == WSum(y, w, 0)[2] = Cardinality({i \in 1..NE : w[i] = 1})
NeverNonFinite == IsFin(Attach(y, t, w)[1]) /\ IsFin(WSum(y, w, 0)[1])
=============================================================================
