SPECIFICATION Spec
CONSTANT N = 3
INVARIANT RejectExactly
INVARIANT TopoOrder
INVARIANT ClosureExact
