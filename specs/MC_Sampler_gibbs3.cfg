SPECIFICATION Spec
CONSTANTS
  Kind = "pop"
  Blocks = {1, 2, 3}
  BlockSeq <- Seq3
  Z <- ZSet
  ALevels = {0, 1, 2}
  ULevels = {0, 1}
  L = 2
  LoNum = 1
  HiNum = 2
  Den = 5
  RandomOrder = TRUE
  MaxCalls = 2
INVARIANT OneDrawPerDecision
INVARIANT OneProposalPerDraw
INVARIANT WindowIsLastL
PROPERTY OnlyBlockTouched
PROPERTY AcceptIffBelow
PROPERTY DecisionLocal
PROPERTY RejectedIsSnapshot
PROPERTY StdOnlyAtMultiples
PROPERTY StdOneFactor
PROPERTY StdOnlyOutOfBand
CHECK_DEADLOCK FALSE
