---------------------------- MODULE SimDesign ----------------------------
(***************************************************************************)
(* Designs accepted / refused by the simulation algorithm                  *)
(* (leaspy.algo.simulate.SimulationAlgorithm) and what a completed         *)
(* simulation must deliver.  A design is a record of abstract attribute    *)
(* classes; Valid is the documented requirement; Outcome is what the       *)
(* implementation does:                                                    *)
(*   Valid => completes   /\   ~Valid => refused (algorithm-input error)   *)
(* On the tree as given Outcome had ten named deviations (D2-D11: wrong    *)
(* exception classes inside the validation, True accepted as a number,     *)
(* a loaded scalar-noise model (found later, same handling),               *)
(* models without sources, non-positive mean interval accepted and         *)
(* looping, spacing < 0.001, table without ID column, integer identifiers, *)
(* a single individual); every one was repaired by a "fix:" commit, so     *)
(* Outcome is now the intended one.  The constant Deviations keeps the     *)
(* mechanism: a named deviation listed there is modelled as built.         *)
(***************************************************************************)
EXTENDS Naturals, FiniteSets, TLC
CONSTANTS VisitTypes,   \* {"random", "dataframe", "other"}
          PNs,          \* patient_number: {"pos", "one", "zero", "neg", "str", "none", "true", "float"}
          Stds,         \* the three *_std: {"ok", "neg", "true" (the boolean True where a number is documented)}
          DMeans,       \* distance_visit_mean: {"pos", "zero", "neg"}
          DStds,        \* distance_visit_std: {"pos", "zero", "large"} ("large": comparable to the mean, ages go back and forth)
          Spacings,     \* min_spacing_between_visits: {"absent", "one", "tenth", "tiny", "neg", "str"}
          FollowUps,    \* follow-up duration: {"pos", "zero" (mean 0, std 0: baseline visit only), "long" (decades: saturated curves)}
          FeatKinds,    \* {"ok", "empty", "nonstr", "blank", "notlist"}
          Missing,      \* a mandatory parameter is missing: BOOLEAN
          Cols,         \* table: {"ok", "noid", "notime"}
          NullTimes,    \* table: BOOLEAN
          IdKinds,      \* table: {"str", "int"}
          TabShapes,    \* table rows: {"plain", "unsorted_repeat" (an individual's rows out of order, one age twice), "late" (ages decades after onset)}
          SrcDims,      \* sources of the model: {1, 0}
          NoiseKinds,   \* noise of the model: {"diag" (per feature, model just fitted), "scalar_loaded" (one level, model loaded from a file)}
          MaxDev,       \* explore designs with at most MaxDev attributes off the valid base
          Deviations    \* named deviations modelled as built (none on the repaired tree)
VARIABLES d
Base == [vt |-> "random", pn |-> "pos", std |-> "ok", dmean |-> "pos", dstd |-> "pos", spacing |-> "one", fu |-> "pos", feats |-> "ok",
         missing |-> FALSE, cols |-> "ok", nulltime |-> FALSE, idkind |-> "str", tab |-> "plain", src |-> 1, noise |-> "diag"]
Designs == [vt : VisitTypes, pn : PNs, std : Stds, dmean : DMeans, dstd : DStds, spacing : Spacings, fu : FollowUps, feats : FeatKinds,
            missing : Missing, cols : Cols, nulltime : NullTimes, idkind : IdKinds, tab : TabShapes, src : SrcDims, noise : NoiseKinds]
NDev(x) == Cardinality({k \in DOMAIN Base : x[k] # Base[k]})
\* attributes of the other visit type are irrelevant: keep them at their base value
Canonical(x) == /\ (x.vt # "random" => (x.pn = "pos" /\ x.std = "ok" /\ x.dmean = "pos" /\ x.dstd = "pos" /\ x.spacing \in {"one", "absent"}
                                         /\ x.fu = "pos" /\ ~x.missing))
                /\ (x.vt # "dataframe" => (x.cols = "ok" /\ ~x.nulltime /\ x.idkind = "str" /\ x.tab = "plain"))
Init == d \in {x \in Designs : NDev(x) <= MaxDev /\ Canonical(x)}
Next == UNCHANGED d
Spec == Init /\ [][Next]_d

FeatsOK(x) == x.feats = "ok"
RandomOK(x) == /\ ~x.missing /\ x.pn \in {"pos", "one"} /\ x.std = "ok" /\ x.spacing \in {"absent", "one", "tenth", "tiny"}
               /\ x.dmean = "pos"                          \* the mean interval between visits is positive
TableOK(x) == x.cols = "ok" /\ ~x.nulltime
Valid(x) == /\ FeatsOK(x) /\ x.vt \in {"random", "dataframe"}
            /\ (x.vt = "random" => RandomOK(x)) /\ (x.vt = "dataframe" => TableOK(x))

Outcome(x) ==
   IF "single_individual" \in Deviations /\ Valid(x) /\ x.vt = "random" /\ x.pn = "one" /\ x.src = 1 THEN "crash_after_validation"
   ELSE IF Valid(x) THEN "completes" ELSE "refused"

\* the property
Honoured == (Valid(d) => Outcome(d) = "completes") /\ (~Valid(d) => Outcome(d) = "refused")
=============================================================================
