---------------------------- MODULE SimDesign ----------------------------
(***************************************************************************)
(* Designs accepted / refused by the simulation algorithm                  *)
(* (leaspy.algo.simulate.SimulationAlgorithm) and what a completed         *)
(* simulation must deliver.  A design is a record of abstract attribute    *)
(* classes; Valid is the documented requirement; Outcome is what the       *)
(* implementation does, with its deviations from                           *)
(*   Valid => completes /\ ~Valid => refused (algorithm-input error)       *)
(* named one by one (each is a known finding).                             *)
(***************************************************************************)
EXTENDS Naturals, FiniteSets, TLC
CONSTANTS VisitTypes,   \* {"random", "dataframe", "other"}
          PNs,          \* patient_number: {"pos", "zero", "neg", "str", "none", "true", "float"}
          Stds,         \* the three *_std: {"ok", "neg"}
          DMeans,       \* distance_visit_mean: {"pos", "zero", "neg"}
          DStds,        \* distance_visit_std: {"pos", "zero"}
          Spacings,     \* min_spacing_between_visits: {"absent", "one", "tenth", "tiny", "neg", "str"}
          FeatKinds,    \* {"ok", "empty", "nonstr", "blank", "notlist"}
          Missing,      \* a mandatory parameter is missing: BOOLEAN
          Cols,         \* table: {"ok", "noid", "notime"}
          NullTimes,    \* table: BOOLEAN
          IdKinds,      \* table: {"str", "int"}
          SrcDims,      \* sources of the model: {1, 0}
          MaxDev,       \* explore designs with at most MaxDev attributes off the valid base
          AsBuilt       \* TRUE: Outcome models the implementation; FALSE: the intended behaviour
VARIABLES d
Base == [vt |-> "random", pn |-> "pos", std |-> "ok", dmean |-> "pos", dstd |-> "pos", spacing |-> "one", feats |-> "ok",
         missing |-> FALSE, cols |-> "ok", nulltime |-> FALSE, idkind |-> "str", src |-> 1]
Designs == [vt : VisitTypes, pn : PNs, std : Stds, dmean : DMeans, dstd : DStds, spacing : Spacings, feats : FeatKinds,
            missing : Missing, cols : Cols, nulltime : NullTimes, idkind : IdKinds, src : SrcDims]
NDev(x) == Cardinality({k \in DOMAIN Base : x[k] # Base[k]})
\* attributes of the other visit type are irrelevant: keep them at their base value
Canonical(x) == /\ (x.vt # "random" => (x.pn = "pos" /\ x.std = "ok" /\ x.dmean = "pos" /\ x.dstd = "pos" /\ x.spacing \in {"one", "absent"} /\ ~x.missing))
                /\ (x.vt # "dataframe" => (x.cols = "ok" /\ ~x.nulltime /\ x.idkind = "str"))
Init == d \in {x \in Designs : NDev(x) <= MaxDev /\ Canonical(x)}
Next == UNCHANGED d
Spec == Init /\ [][Next]_d

FeatsOK(x) == x.feats = "ok"
RandomOK(x) == /\ ~x.missing /\ x.pn = "pos" /\ x.std = "ok" /\ x.spacing \in {"absent", "one", "tenth", "tiny"}
               /\ x.dmean = "pos"                          \* the mean interval between visits is positive
TableOK(x) == x.cols = "ok" /\ ~x.nulltime
Valid(x) == /\ FeatsOK(x) /\ x.vt \in {"random", "dataframe"}
            /\ (x.vt = "random" => RandomOK(x)) /\ (x.vt = "dataframe" => TableOK(x))

\* ---- what the implementation does (first failing check wins, in the order of the code) ----
Outcome(x) ==
   IF ~AsBuilt THEN (IF Valid(x) THEN "completes" ELSE "refused")
   ELSE IF x.vt = "other" THEN "refused"
   ELSE IF x.vt = "random" /\ x.missing THEN "crash_KeyError"                  \* D2: a missing parameter is read before the check that reports it
   ELSE IF ~FeatsOK(x) THEN "refused"
   ELSE IF x.vt = "random" THEN
        (IF x.pn \in {"str", "none"} THEN "crash_TypeError"                     \* D3: value compared before the type error is raised
         ELSE IF x.spacing = "str" THEN "crash_TypeError"                       \* D4: same for the spacing
         ELSE IF x.pn \in {"zero", "neg", "float"} \/ x.std = "neg" THEN "refused"
         ELSE IF x.spacing = "neg" THEN "refused"
         ELSE IF x.dmean \in {"zero", "neg"} /\ x.dstd = "zero" THEN "refused"
         ELSE IF x.pn = "true" THEN "crash_after_validation"                    \* D5: True is an int for the type check
         ELSE IF x.src = 0 THEN "crash_RuntimeError"                            \* D6: a model without sources cannot be simulated
         ELSE IF x.dmean \in {"neg", "zero"} THEN "hangs_or_completes"           \* D7: non-positive mean interval accepted: the visit loop may never end
         ELSE IF x.spacing = "tiny" THEN "crash_TypeError"                      \* D8: spacing below 0.001: no rounding precision
         ELSE "completes")
   ELSE \* dataframe
        (IF x.cols = "noid" THEN "crash_KeyError"                               \* D9: the table is grouped by ID before its columns are checked
         ELSE IF x.cols = "notime" THEN "refused"
         ELSE IF x.nulltime THEN "refused"
         ELSE IF x.src = 0 THEN "crash_RuntimeError"
         ELSE IF x.idkind = "int" THEN "crash_after_validation"                 \* D10: integer identifiers
         ELSE "completes")

\* the property
Honoured == (Valid(d) => Outcome(d) = "completes") /\ (~Valid(d) => Outcome(d) = "refused")
\* as built: it holds except on the named deviations
Deviates(x) == Outcome(x) \notin {"completes", "refused"} \/ (Valid(x) # (Outcome(x) = "completes"))
=============================================================================
