---------------------------- MODULE ModelLifecycle ----------------------------
(***************************************************************************)
(* Call histories of the public API on one model object:                   *)
(* fit / estimate / personalize (scipy_minimize, mean_posterior,           *)
(* mode_posterior) / simulate / save / load, plus consumption of random    *)
(* numbers between calls.                                                  *)
(* The result of a query is the term <<call, params, inputs, seed>>: what  *)
(* it is allowed to depend on.  The implementation is bound by replaying   *)
(* behaviours and requiring (a) the projected model state after each call  *)
(* to be the specification's and (b) observations carrying equal terms to  *)
(* be bit-identical, whatever the history.                                 *)
(***************************************************************************)
EXTENDS Naturals, Sequences, TLC
CONSTANTS Datasets,       \* e.g. {"D1","D2"}
          Seeds,          \* e.g. {0,1}
          MaxCalls,
          FitLeavesCohort,\* TRUE (as documented): after a fit the model state keeps the training data and latent values
          Script          \* <<>>: any history; otherwise the sequence of calls to make (directed histories for the replay)
VARIABLES params,   \* <<"init">> | <<"fit", dataset, seed, previous params>> | <<"file", params>>
          pop,      \* "mode": population variables are the modes of their priors under params | "diverged"
          data,     \* "none" or the dataset whose tensors sit in the model state
          indlat,   \* <<"unset">> or <<dataset, "fit">>: individual latent values sitting in the model state
          rng,      \* <<"arbitrary">> | <<"seeded", seed>>
          file,     \* <<"nofile">> or the params written by the last save
          last,     \* result term of the last call
          inputsOK, \* the caller's table / settings objects are as the caller made them
          act,      \* the call just made, with its arguments (observation only)
          ncalls
vars == <<params, pop, data, indlat, rng, file, last, inputsOK, act, ncalls>>
NoRes == <<"none">>
UNSET == <<"unset">>
NOFILE == <<"nofile">>

Init == /\ params = <<"init">> /\ pop = "mode" /\ data = "none" /\ indlat = UNSET
        /\ rng = <<"arbitrary">> /\ file = NOFILE /\ last = NoRes /\ inputsOK = TRUE /\ act = <<"Init">> /\ ncalls = 0
Step == ncalls' = ncalls + 1
Fitted == params # <<"init">>

\* a re-fit continues from the individual latent values sitting in the model state (as built, documented deviation):
\* they are part of what the fitted parameters depend on; a re-fit on another cohort while latents of a different
\* cohort are held is outside the modelled domain (it fails on a shape mismatch)
Fit(D, s) == /\ (indlat = UNSET \/ indlat[1] = D)
             /\ params' = <<"fit", D, s, params, indlat>> /\ pop' = "mode"
             /\ data' = IF FitLeavesCohort THEN D ELSE "none"
             /\ indlat' = IF FitLeavesCohort THEN <<D, "fit">> ELSE UNSET
             /\ rng' = <<"seeded", s>> /\ last' = <<"fit", params, D, s>> /\ act' = <<"Fit", D, s>> /\ UNCHANGED <<file, inputsOK>> /\ Step
Estimate(q) == /\ Fitted /\ last' = <<"estimate", params, q, 0>>
               /\ act' = <<"Estimate">> /\ UNCHANGED <<params, pop, data, indlat, rng, file, inputsOK>> /\ Step
\* the same request answered as a table (ages given as a dict of lists)
EstimateFrame(q) == /\ Fitted /\ last' = <<"estimate_frame", params, q, 0>>
                    /\ act' = <<"EstimateFrame">> /\ UNCHANGED <<params, pop, data, indlat, rng, file, inputsOK>> /\ Step
\* scipy_minimize: works on one cloned state per individual, starting from seeded prior samples
PersoScipy(D, s) == /\ Fitted /\ last' = <<"scipy", params, D, s>>
                    /\ act' = <<"PersoScipy", D, s>>
                    /\ rng' = <<"seeded", s>> /\ UNCHANGED <<params, pop, data, indlat, file, inputsOK>> /\ Step
\* scipy_minimize with the caller's own optimiser options (another method, an iteration budget): a different call, hence
\* a different result term - and nothing of it may show in later default calls
PersoScipyCustom(D, s) == /\ Fitted /\ last' = <<"scipy_custom", params, D, s>>
                          /\ act' = <<"PersoScipyCustom", D, s>>
                          /\ rng' = <<"seeded", s>> /\ UNCHANGED <<params, pop, data, indlat, file, inputsOK>> /\ Step
\* mean / mode posterior: run on a clone of the model state, which is cleaned and put back
PersoMcmc(D, s, how) == /\ Fitted /\ last' = <<how, params, D, s>>
                        /\ data' = "none" /\ indlat' = UNSET
                        /\ act' = <<IF how = "mean" THEN "PersoMean" ELSE "PersoMode", D, s>>
                        /\ rng' = <<"seeded", s>> /\ UNCHANGED <<params, pop, file, inputsOK>> /\ Step
Simulate(s) == /\ Fitted /\ last' = <<"simulate", params, "design", s>> /\ rng' = <<"seeded", s>>
               /\ act' = <<"Simulate", s>> /\ UNCHANGED <<params, pop, data, indlat, file, inputsOK>> /\ Step
\* simulation on the caller's table of visits (integer identifiers)
SimulateTable(s) == /\ Fitted /\ last' = <<"simulate_table", params, "table", s>> /\ rng' = <<"seeded", s>>
                    /\ act' = <<"SimulateTable", s>> /\ UNCHANGED <<params, pop, data, indlat, file, inputsOK>> /\ Step
Save == /\ Fitted /\ file' = params /\ last' = NoRes /\ act' = <<"Save">> /\ UNCHANGED <<params, pop, data, indlat, rng, inputsOK>> /\ Step
Load == /\ file # NOFILE /\ params' = <<"file", file>> /\ pop' = "mode" /\ data' = "none" /\ indlat' = UNSET
        /\ last' = NoRes /\ act' = <<"Load">> /\ UNCHANGED <<rng, file, inputsOK>> /\ Step
\* a call that fails on its inputs (events-only data given to a model without events, individual parameters lacking a
\* variable, a table with one feature too many): an error is raised and NOTHING of the model changes - later calls behave as if
\* it had never been made
FailKinds == {"events_only", "bad_ips", "extra_feature"}
FailedCall(kind) == /\ Fitted /\ last' = NoRes /\ act' = <<"FailedCall", kind>>
                    /\ UNCHANGED <<params, pop, data, indlat, rng, file, inputsOK>> /\ Step
BurnRng == /\ rng' = <<"arbitrary">> /\ last' = NoRes /\ act' = <<"BurnRng">> /\ UNCHANGED <<params, pop, data, indlat, file, inputsOK>> /\ Step

AFit == \E D \in Datasets, s \in Seeds : Fit(D, s)
AEstimate == Estimate("q1") \/ EstimateFrame("q1")
APersoScipy == \E D \in Datasets, s \in Seeds : PersoScipy(D, s) \/ PersoScipyCustom(D, s)
APersoMean == \E D \in Datasets, s \in Seeds : PersoMcmc(D, s, "mean")
APersoMode == \E D \in Datasets, s \in Seeds : PersoMcmc(D, s, "mode")
ASimulate == \E s \in Seeds : Simulate(s) \/ SimulateTable(s)
AFailedCall == \E kind \in FailKinds : FailedCall(kind)
Next == /\ ncalls < MaxCalls
        /\ (AFit \/ AEstimate \/ APersoScipy \/ APersoMean \/ APersoMode \/ ASimulate \/ Save \/ Load \/ BurnRng \/ AFailedCall)
\* directed histories: the same actions, restricted to the scripted call at each position
ScriptedNext == /\ ncalls < Len(Script) /\ Next /\ act' = Script[ncalls + 1]
Spec == Init /\ [][IF Script = <<>> THEN Next ELSE ScriptedNext]_vars
-----------------------------------------------------------------------------
IsQuery(r) == r[1] \in {"estimate", "estimate_frame", "scipy", "scipy_custom", "mean", "mode", "simulate", "simulate_table"}
\* C13: a query result is a function of (call, params, inputs, seed) only -- by construction of the term: 4 components
ResultDependsOnlyOn == IsQuery(last) => Len(last) = 4
\* C13: queries leave parameters and population variables as they were
ModelUntouched == [][ IsQuery(last') => (params' = params /\ pop' = pop) ]_vars
\* C13: nothing of the call's data / latent values is left behind by a query
NothingLeftBehind == [][ IsQuery(last') => (data' \in {data, "none"} /\ indlat' \in {indlat, UNSET}) ]_vars
\* C13: caller-owned objects are never modified
CallerInputsUntouched == inputsOK
\* C12: after fit or load the population variables are the prior modes of the parameters
PopAtMode == pop = "mode"
\* C11: a seeded call re-seeds: the stream state before the call is irrelevant
SeededRepeatable == [][ (last'[1] \in {"fit", "scipy", "scipy_custom", "mean", "mode", "simulate", "simulate_table"}) => rng' = <<"seeded", last'[4]>> ]_vars
=============================================================================
