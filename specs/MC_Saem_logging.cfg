SPECIFICATION Spec
CONSTANTS
  NIters <- LogN
  BurnSpecs <- HalfBurn
  Powers <- P45
  Anneals <- OffOnly
  LogCfgs <- AllLogs
  Vars = {"g", "xi"}
  VarSeq <- Seq2
  Params = {"p1"}
  RandomOrders = {FALSE}
  GuardPeriodZero = TRUE
  GuardLowT0 = TRUE
  PrintNeedsNoPath = TRUE
INVARIANT LogExactlyWhenDue
INVARIANT AcceptedCompletes
PROPERTY LogReadOnly
PROPERTY Termination
CHECK_DEADLOCK FALSE
