---- MODULE MC_Saem ----
EXTENDS Saem
\* configuration spaces used by the exhaustive configs (one concern varies, the others are pinned)
NoLog == [on |-> FALSE, print |-> 0, save |-> 0, plot |-> 0, patients |-> 0, path |-> FALSE, dir |-> "absent", overwrite |-> FALSE]
Per == {0, 1, 2, 3, 4, 6}
AllLogs == {NoLog} \cup {l \in [on : {TRUE}, print : Per, save : Per, plot : Per, patients : Per, path : BOOLEAN,
                                 dir : {"absent", "empty", "nonempty"}, overwrite : BOOLEAN] :
                            /\ (l.print # 0 \/ l.save # 0 \/ l.plot # 0 \/ l.patients # 0 \/ l.path \/ l.overwrite)
                            /\ (~l.path => l.dir = "absent")}
NoLogSet == {NoLog}
SomeLogs == {NoLog, [NoLog EXCEPT !.on = TRUE, !.print = 2], [NoLog EXCEPT !.on = TRUE, !.save = 2, !.plot = 4, !.path = TRUE]}

BurnAll(nmax) == {<<"count", c>> : c \in 0..(nmax + 1)} \cup {<<"frac", f>> : f \in 0..10} \cup {<<"frac8", f>> : f \in {1, 3, 5, 7}}
PowersAll == {<<1, 2>>, <<51, 100>>, <<13, 20>>, <<4, 5>>, <<1, 1>>, <<11, 10>>, <<0, 0>>}    \* <<0, 0>>: not a number
T0s == {<<1, 2>>, <<1, 1>>, <<3, 2>>, <<5, 1>>, <<10, 1>>}
AnnealAll(nmax, pmax) == {<<"off">>} \cup {<<"on", sp, P, t>> : sp \in ({<<"count", c>> : c \in 0..nmax} \cup {<<"frac", f>> : f \in {0, 3, 5, 10}}),
                                                            P \in 1..pmax, t \in T0s}

\* --- schedule concern (C05)
ScheduleN == 1..12
ScheduleBurn == BurnAll(12)
\* --- annealing concern (C19)
AnnealN == 1..12
AnnealSet == AnnealAll(12, 6)
\* --- logging concern (C11)
LogN == 1..6
\* --- joint (all three vary, small)
JointN == 1..4
JointBurn == {<<"count", 0>>, <<"count", 2>>, <<"frac", 5>>}
JointAnn == {<<"off">>, <<"on", <<"count", 2>>, 2, <<5, 1>>>>, <<"on", <<"frac", 5>>, 3, <<3, 2>>>>}
OffOnly == {<<"off">>}
HalfBurn == {<<"frac", 5>>}
P45 == {<<4, 5>>}
P45_1 == {<<4, 5>>, <<1, 1>>}
Seq3 == <<"g", "tau", "xi">>
Seq2 == <<"g", "xi">>
====
