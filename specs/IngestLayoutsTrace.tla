---------------------------- MODULE IngestLayoutsTrace ----------------------------
(* Conformance of recorded ingestions (event / joint / covariate layouts) with IngestLayouts.tla: one initial state per record. *)
EXTENDS IngestLayouts, Json, IOUtils, SequencesExt
TLog == ndJsonDeserialize(IOEnv.TRACE_FILE)
VARIABLE k
Row(r) == [id |-> r.id, age |-> r.age, et |-> r.et, eb |-> r.eb, cov |-> r.cov]
TInit == /\ k \in 1..Len(TLog)
         /\ table = [i \in 1..Len(TLog[k].table) |-> Row(TLog[k].table[i])]
TNext == UNCHANGED <<k, vars>>
TSpec == TInit /\ [][TNext]_<<k, vars>>
Rec == TLog[k]
Conforms == LET e == Canon(table) IN
   /\ Rec.layout = Layout
   /\ Rec.status = e.status                              \* rejected with the data-input error exactly when malformed
   /\ Rec.input_untouched                                 \* the caller's table is never modified
   /\ e.status = "ok" =>
        /\ Len(Rec.order) = Len(e.order) /\ \A i \in 1..Len(e.order) : Rec.order[i] = e.order[i]
        /\ \A i \in 1..Len(e.order) :
              /\ Len(Rec.visits[i]) = Len(e.visits[i])
              /\ \A v \in 1..Len(e.visits[i]) : Rec.visits[i][v][1] = e.visits[i][v][1] /\ Rec.visits[i][v][2] = e.visits[i][v][2]
              /\ Rec.event[i][1] = e.event[i][1] /\ Rec.event[i][2] = e.event[i][2]
              /\ Rec.cov[i] = e.cov[i]
        /\ Rec.tensors_ok                                 \* Dataset rows: same individuals, same order, same events / covariates / padded visits
        /\ Rec.roundtrip_same                             \* back to a table and re-ingested: nothing changes
Covered == IOEnv.EXPECT_COUNT = "0" \/ Cardinality({TLog[i].table : i \in 1..Len(TLog)}) = atoi(IOEnv.EXPECT_COUNT)
=============================================================================
