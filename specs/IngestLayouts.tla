---------------------------- MODULE IngestLayouts ----------------------------
(***************************************************************************)
(* Ingestion of the event, joint (visits + one event per individual) and   *)
(* covariate (visits + one integer covariate per individual) layouts       *)
(* (leaspy.io.data: event / joint / covariate dataframe readers, Data,     *)
(* Dataset).  Complements Ingest.tla (visit layout: ages, values, ids).    *)
(* A table is a sequence of rows [id, age, et, eb, cov]:                   *)
(*   age  1 < 2 < 3 (valid ages; the value of the single feature is a code *)
(*        of <<id, age>>, so that alignment is observable)                 *)
(*   et   event time "0" (not positive), "2", "4" (numbers on the scale of *)
(*        the ages), "nan" (missing)                                       *)
(*   eb   0 censored / 1 observed (event of the first kind) / 2 observed   *)
(*        event of a second kind (competing risks)                         *)
(*   cov  "0", "1" (integers), "half" (not an integer), "nan" (missing)    *)
(* In the event layout the age is not a column; in the joint layout cov    *)
(* is not; in the covariate layout et / eb are not.                        *)
(* As-built rules kept as named constants:                                 *)
(*   RequireAnEvent     a table where every event is censored is refused   *)
(*                      (no number of events was given to the reader)      *)
(*   RequireTwoCovValues a covariate taking one value over the whole       *)
(*                      cohort is refused                                  *)
(***************************************************************************)
EXTENDS Naturals, Sequences, FiniteSets, TLC
CONSTANTS Layout,     \* "event" | "joint" | "covariate"
          Ids, Ages, ETs, EBs, Covs, MaxRows,
          Family,     \* "all": every table of at most MaxRows rows | "three_one": 3 rows of one individual (all age orders) + 1 row of another
          RequireAnEvent, RequireTwoCovValues
VARIABLE table
vars == <<table>>
Rows == [id : Ids, age : Ages, et : ETs, eb : EBs, cov : Covs]
IdA == CHOOSE i \in Ids : \A j \in Ids : i = j \/ i # j
ThreeOne(t) == /\ Len(t) = 4
               /\ \E a \in Ids : /\ Cardinality({i \in 1..4 : t[i].id = a}) = 3
                                 /\ Cardinality({t[i].age : i \in {j \in 1..4 : t[j].id = a}}) = 3
                                 /\ \A i \in 1..4 : t[i].id # a => t[i].age = 1
                                 /\ a = "a"
Init == IF Family = "all" THEN table \in UNION {[1..n -> Rows] : n \in 0..MaxRows}
        ELSE table \in {t \in [1..4 -> Rows] : ThreeOne(t)}
Next == UNCHANGED vars
Spec == Init /\ [][Next]_vars
-----------------------------------------------------------------------------
Idx(t) == 1..Len(t)
IdsIn(t) == {t[i].id : i \in Idx(t)}
ETNum(e) == IF e = "2" THEN 2 ELSE IF e = "4" THEN 4 ELSE 0
Code(id, age) == (IF id = "a" THEN 10 ELSE 20) + age            \* value of the feature at that visit, in hundredths

DupVisit(t) == \E i, j \in Idx(t) : i < j /\ t[i].id = t[j].id /\ t[i].age = t[j].age
DupId(t) == \E i, j \in Idx(t) : i < j /\ t[i].id = t[j].id
BadET(t) == \E i \in Idx(t) : t[i].et \in {"0", "nan"}                 \* every listed event time must be a positive number
InconsEvent(t) == \E i, j \in Idx(t) : t[i].id = t[j].id /\ (t[i].et # t[j].et \/ t[i].eb # t[j].eb)
NoEvent(t) == RequireAnEvent /\ \A i \in Idx(t) : t[i].eb = 0
MaxAge(t, id) == CHOOSE m \in {t[i].age : i \in {j \in Idx(t) : t[j].id = id}} : \A i \in Idx(t) : t[i].id = id => t[i].age <= m
\* an OBSERVED event may not precede the individual's last visit (a censored one may: prediction set-up, warning only)
ObservedBeforeLastVisit(t) == \E i \in Idx(t) : t[i].eb # 0 /\ ETNum(t[i].et) < MaxAge(t, t[i].id)
BadCov(t) == \E i \in Idx(t) : t[i].cov \in {"nan", "half"}
InconsCov(t) == \E i, j \in Idx(t) : t[i].id = t[j].id /\ t[i].cov # t[j].cov
OneCovValue(t) == RequireTwoCovValues /\ Cardinality({t[i].cov : i \in Idx(t)}) < 2

Malformed(t) ==
   \/ Len(t) = 0
   \/ Layout = "event" /\ (DupId(t) \/ BadET(t) \/ NoEvent(t))
   \/ Layout = "joint" /\ (DupVisit(t) \/ BadET(t) \/ InconsEvent(t) \/ NoEvent(t) \/ ObservedBeforeLastVisit(t))
   \/ Layout = "covariate" /\ (DupVisit(t) \/ BadCov(t) \/ InconsCov(t) \/ OneCovValue(t))

RECURSIVE FirstSeen(_, _)
FirstSeen(t, seen) == IF t = <<>> THEN <<>>
                      ELSE IF Head(t).id \in seen THEN FirstSeen(Tail(t), seen)
                      ELSE <<Head(t).id>> \o FirstSeen(Tail(t), seen \cup {Head(t).id})
AgesOf(t, id) == {t[i].age : i \in {j \in Idx(t) : t[j].id = id}}
RECURSIVE SortedSeq(_)
SortedSeq(S) == IF S = {} THEN <<>> ELSE LET m == CHOOSE x \in S : \A y \in S : x <= y IN <<m>> \o SortedSeq(S \ {m})
VisitsOf(t, id) == IF Layout = "event" THEN <<>>
                   ELSE LET s == SortedSeq(AgesOf(t, id)) IN [k \in 1..Len(s) |-> <<s[k], Code(id, s[k])>>]
AnyRow(t, id) == t[CHOOSE i \in Idx(t) : t[i].id = id]
EventOf(t, id) == IF Layout = "covariate" THEN <<"none", 0>> ELSE <<AnyRow(t, id).et, AnyRow(t, id).eb>>
CovOf(t, id) == IF Layout = "covariate" THEN AnyRow(t, id).cov ELSE "none"

\* individuals: in order of first appearance when the table holds visits; the event-only layout (no visits) lists them
\* sorted by identifier (as built: one row per individual is obtained by grouping) - in both cases independent of row order
\* up to the permutation of first appearances
RECURSIVE SortedIds(_)
SortedIds(S) == IF S = {} THEN <<>> ELSE LET m == IF "a" \in S THEN "a" ELSE CHOOSE x \in S : TRUE IN <<m>> \o SortedIds(S \ {m})
Canon(t) == IF Malformed(t) THEN [status |-> "data_error"]
            ELSE LET ord == IF Layout = "event" THEN SortedIds(IdsIn(t)) ELSE FirstSeen(t, {}) IN
                 [status |-> "ok", order |-> ord,
                  visits |-> [i \in 1..Len(ord) |-> VisitsOf(t, ord[i])],
                  event |-> [i \in 1..Len(ord) |-> EventOf(t, ord[i])],
                  cov |-> [i \in 1..Len(ord) |-> CovOf(t, ord[i])]]
-----------------------------------------------------------------------------
Res == Canon(table)
Perms(n) == {p \in [1..n -> 1..n] : \A i, j \in 1..n : i # j => p[i] # p[j]}
Permuted(t, p) == [i \in 1..Len(t) |-> t[p[i]]]
ContentOf(c) == {<<c.order[i], c.visits[i], c.event[i], c.cov[i]>> : i \in 1..Len(c.order)}
\* C14: the verdict and the per-individual content do not depend on the order of the rows
PermutationInvariant == \A p \in Perms(Len(table)) :
    LET c2 == Canon(Permuted(table, p)) IN c2.status = Res.status /\ (Res.status = "ok" => ContentOf(c2) = ContentOf(Res))
\* C14: one entry per individual, in order of first appearance; one event / covariate per individual, that of all its rows
OnePerIndividual == Res.status = "ok" =>
    /\ Len(Res.order) = Cardinality(IdsIn(table))
    /\ \A i \in Idx(table) : \E k \in 1..Len(Res.order) :
          /\ Res.order[k] = table[i].id
          /\ (Layout # "covariate" => Res.event[k] = <<table[i].et, table[i].eb>>)
          /\ (Layout = "covariate" => Res.cov[k] = table[i].cov)
          /\ (Layout # "event" => \E v \in 1..Len(Res.visits[k]) : Res.visits[k][v] = <<table[i].age, Code(table[i].id, table[i].age)>>)
\* C14: an accepted joint table never holds a visit after an observed event; accepted events are positive numbers
AcceptedIsConsistent == Res.status = "ok" =>
    /\ (Layout # "covariate" => \A k \in 1..Len(Res.order) : Res.event[k][1] \in {"2", "4"})
    /\ (Layout = "joint" => \A k \in 1..Len(Res.order) : Res.event[k][2] # 0 =>
            \A v \in 1..Len(Res.visits[k]) : Res.visits[k][v][1] <= ETNum(Res.event[k][1]))
    /\ (Layout = "covariate" => \A k \in 1..Len(Res.order) : Res.cov[k] \in {"0", "1"})
=============================================================================
