SPECIFICATION Spec
CONSTANT N = 4
INVARIANT RejectExactly
INVARIANT TopoOrder
INVARIANT ClosureExact
