---- MODULE MC_DataContainer ----
EXTENDS DataContainer
MCBase == <<"s10", "s2", "b", "a">>          \* first-appearance order, neither sorted nor reverse sorted
Pos == 0..3
Seqs12(S) == {<<a>> : a \in S} \cup {<<a, b>> : a \in S, b \in S}
MCOps == {<<"slice", lo, hi, st>> : lo \in 0..2, hi \in {1, 3, 4, 6}, st \in 1..2}
         \cup {<<"rev">>, <<"long">>}
         \cup {<<"ints", s>> : s \in Seqs12(Pos) \cup {<<3, 0, 2>>}}
         \cup {<<"ids", s>> : s \in Seqs12({"s10", "s2", "b", "a"}) \cup {<<"a", "s10", "b">>}}
====
