SPECIFICATION Spec
CONSTANTS
  Families = {"normal", "mixnormal", "bernoulli", "weibull"}
  Censorings = {"censored", "observed"}
  Positions = {"before", "just_before", "at", "just_after", "after"}
  Shapes = {"lt1", "eq1", "gt1", "eq3"}
  Sources = {TRUE, FALSE}
  Outcomes = {"y0", "y1"}
  Probs = {"interior", "sat0", "sat1"}
INVARIANT CensoredOnlySurvival
INVARIANT Finite
INVARIANT DerivativeClosed
INVARIANT CloseIsOrdinary
INVARIANT HazardTimesSurvival
