---------------------------- MODULE SaveLoad ----------------------------
(***************************************************************************)
(* Self-consistency of a fitted model and its survival through save / load *)
(* over the space of model configurations (leaspy.models.base / settings / *)
(* stateful / factory).  Named deviations of the implementation:           *)
(*   NameIsKindOK   FALSE as built: the file stores the INSTANCE name under *)
(*                  the key the loader uses to choose the model kind       *)
(*   UniSourcesOK   FALSE as built: a univariate model built without an    *)
(*                  explicit dimension gets one source, saves parameters   *)
(*                  of sources that the loaded (univariate) model rejects  *)
(*   ScalarShapeOK  FALSE as built: after a fit the scalar noise level is  *)
(*                  0-dimensional, after a load it has shape (1,), so the  *)
(*                  re-saved file differs in the nesting of noise_std      *)
(***************************************************************************)
EXTENDS Naturals, TLC
CONSTANTS ModelKinds, Dims, DimGiven, Srcs, Noises, Feats, INames, Origins, NameIsKindOK, UniSourcesOK, ScalarShapeOK
VARIABLES kind, dim, dimgiven, src, noise, feats, iname, origin
vars == <<kind, dim, dimgiven, src, noise, feats, iname, origin>>
Unspec == 99
\* configurations that can be constructed and fitted
Valid == /\ (kind = "shared_speed_logistic" => dim >= 2)
         /\ (src # Unspec => src < dim)                         \* at most dimension - 1 sources
         /\ (noise = "diag" => dim >= 2)
         /\ (kind = "joint" => (noise = "default" /\ (dim = 1 \/ src # 0)))   \* (joint without sources needs an explicit scalar model)
         /\ (~dimgiven => (src = Unspec /\ noise # "diag"))      \* nothing that needs the dimension can be given without it
Init == /\ kind \in ModelKinds /\ dim \in Dims /\ dimgiven \in DimGiven /\ src \in Srcs /\ noise \in Noises
        /\ feats \in Feats /\ iname \in INames /\ origin \in Origins /\ Valid
Next == UNCHANGED vars
Spec == Init /\ [][Next]_vars

SrcResolved == IF src # Unspec THEN src ELSE IF dimgiven /\ dim = 1 THEN 0 ELSE 1
\* default observation model: scalar when the dimension is not given at construction, else per-feature (which for one
\* feature is the scalar rule again)
ScalarNoise == noise = "scalar" \/ (noise = "default" /\ (~dimgiven \/ dim = 1))
LoadOK == /\ (NameIsKindOK \/ iname = "kind")
          /\ (UniSourcesOK \/ ~(dim = 1 /\ SrcResolved >= 1))
\* origins: "fit" (one averaging iteration after the memory-less phase), "fit_mem2" / "fit_mem3" (two / three averaging
\* iterations: the parameters are then averages, not the last draws), "hand" (hand-written file), "edited" (a fitted model
\* object whose parameters are replaced by hand-written values through load_parameters before saving), "refit" (a fitted
\* object that is calibrated a second time); for "edited" and "refit" the object already answered trajectory requests and
\* was saved to / loaded from the very path used afterwards
FromFit == origin \in {"fit", "fit_mem2", "fit_mem3", "refit"}
ResaveSame == ScalarShapeOK \/ ~(ScalarNoise /\ FromFit)
Expected == [pop_at_mode |-> TRUE, save_ok |-> TRUE, load_ok |-> LoadOK, src_resolved |-> SrcResolved,
             same_params |-> LoadOK, same_hyper |-> LoadOK, same_traj |-> LoadOK, resave_same |-> (LoadOK /\ ResaveSame)]

\* the property: every configuration survives save / load and re-save
SurvivesSaveLoad == LoadOK /\ ResaveSame
\* as built: exactly the three named deviations break it
SurvivesExceptNamed == SurvivesSaveLoad \/ iname = "custom" \/ (dim = 1 /\ SrcResolved >= 1) \/ (ScalarNoise /\ FromFit)
=============================================================================
