SPECIFICATION Spec
CONSTANTS
  NIters <- ScheduleN
  BurnSpecs <- ScheduleBurn
  Powers <- PowersAll
  Anneals <- OffOnly
  LogCfgs <- NoLogSet
  Vars = {"g", "tau", "xi"}
  VarSeq <- Seq3
  Params = {"p1", "p2"}
  RandomOrders = {FALSE}
  GuardPeriodZero = TRUE
  GuardLowT0 = TRUE
  PrintNeedsNoPath = TRUE
INVARIANT PhaseRule
INVARIANT StepIndexRule
INVARIANT BurnInLength
INVARIANT PowerRefusedInv
INVARIANT BatchUpdate
INVARIANT SampledOnce
INVARIANT NoAnnealingIsOne
INVARIANT AcceptedCompletes
PROPERTY Termination
PROPERTY Independent
CHECK_DEADLOCK FALSE
