---------------------------- MODULE SimDesignTrace ----------------------------
EXTENDS SimDesign, Json, IOUtils, Sequences
TLog == ndJsonDeserialize(IOEnv.TRACE_FILE)
VARIABLE k
TInit == /\ k \in 1..Len(TLog)
         /\ d = [vt |-> TLog[k].vt, pn |-> TLog[k].pn, std |-> TLog[k].std, dmean |-> TLog[k].dmean, dstd |-> TLog[k].dstd,
                 spacing |-> TLog[k].spacing, fu |-> TLog[k].fu, feats |-> TLog[k].feats, missing |-> TLog[k].missing, cols |-> TLog[k].cols,
                 nulltime |-> TLog[k].nulltime, idkind |-> TLog[k].idkind, tab |-> TLog[k].tab, src |-> TLog[k].src, noise |-> TLog[k].noise]
TNext == UNCHANGED <<k, d>>
TSpec == TInit /\ [][TNext]_<<k, d>>
Rec == TLog[k]
Conforms == LET o == Outcome(d) IN
   /\ \/ Rec.outcome = o
      \/ (o = "crash_after_validation" /\ Rec.outcome \in {"crash_TypeError", "crash_ValueError", "crash_KeyError", "crash_IndexError",
                                                         "crash_LeaspyIndividualParamsInputError", "crash_AssertionError", "crash_RuntimeError"})
   /\ Rec.outcome = "completes" =>
        /\ Rec.individuals_exact        \* exactly the requested number / exactly the individuals of the table
        /\ Rec.ages_increasing_unique   \* unique, increasing ages per individual
        /\ Rec.ages_rounded             \* rounded to the precision implied by the spacing (table ages too)
        /\ Rec.values_in_unit_interval  \* finite, within [0, 1], every requested feature present
        /\ Rec.one_param_set_each       \* one reported set of individual parameters per simulated individual
        /\ Rec.design_reusable          \* the caller's design is untouched and a second simulation honours it (same seed: same cohort)
   /\ Rec.outcome = "refused" => Rec.nothing_generated     \* refused before anything is drawn
=============================================================================
