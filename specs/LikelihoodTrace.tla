---------------------------- MODULE LikelihoodTrace ----------------------------
(* code -> spec: for every enumerated case the driver instantiated numeric points, ran the real distribution families and  *)
(* model-level likelihood variables, and evaluated the specification's term; the record carries the case and the verdicts.  *)
EXTENDS Likelihood, Json, IOUtils, FiniteSets
TLog == ndJsonDeserialize(IOEnv.TRACE_FILE)
VARIABLE k
TInit == /\ k \in 1..Len(TLog) /\ fam = TLog[k].fam /\ cens = TLog[k].cens /\ pos = TLog[k].pos /\ shp = TLog[k].shp
         /\ src = TLog[k].src /\ yb = TLog[k].yb /\ pb = TLog[k].pb /\ term = Term /\ kind = Kind /\ jac = Jac /\ aux = Aux
TNext == UNCHANGED <<k, vars>>
TSpec == TInit /\ [][TNext]_<<k, vars>>
Rec == TLog[k]
Conforms == /\ Rec.kind = Kind                 \* the driver evaluated the term of this very case
            /\ Rec.n_points >= 1
            /\ Rec.all_match                     \* every entry equals the evaluated term (or literally the penalty / zero)
            /\ Rec.all_finite                    \* never NaN or infinity
            /\ Rec.layouts_match                 \* broadcasting layouts used by the models (scalar / per-feature scale, several events)
            /\ Rec.routes_agree                  \* the values handed out together with their derivative are the same values; hazard = exp(LogHazard), log-survival = -Survival
Covered == IOEnv.EXPECT_COUNT = "0" \/ Cardinality({<<TLog[i].fam, TLog[i].cens, TLog[i].pos, TLog[i].shp, TLog[i].src, TLog[i].yb, TLog[i].pb>> : i \in 1..Len(TLog)}) = atoi(IOEnv.EXPECT_COUNT)
=============================================================================
