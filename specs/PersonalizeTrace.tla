---------------------------- MODULE PersonalizeTrace ----------------------------
(* code -> spec: recorded personalizations.  Sampling-based runs: the kept iterations, the per-individual loss ranks of the   *)
(* kept draws and the draw returned are checked against the bookkeeping of Personalize.tla; optimisation-based runs: the      *)
(* objective at the returned point is not worse than at the starting point; all runs: one finite, aligned set per subject.   *)
EXTENDS Integers, Sequences, FiniteSets, TLC, Json, IOUtils
TLog == ndJsonDeserialize(IOEnv.TRACE_FILE)
VARIABLE k
TInit == k \in 1..Len(TLog)
TNext == UNCHANGED k
TSpec == TInit /\ [][TNext]_k
Rec == TLog[k]
FirstArgmin(r) == CHOOSE a \in 1..Len(r) : (\A b \in 1..Len(r) : r[a] <= r[b]) /\ (\A c \in 1..(a - 1) : r[c] > r[a])
Common == /\ Rec.ids_out = Rec.ids_in                  \* keyed by the input identifiers, in input order
          /\ Rec.one_set_each /\ Rec.all_finite /\ Rec.shapes_ok
Sampling == Rec.type = "sampling" =>
   IF Rec.n - Rec.nb <= 0
     THEN Rec.status = "refused"                                  \* nothing to average: the setting is refused
     ELSE /\ Rec.status = "ok" /\ Common
          /\ Rec.kept = [a \in 1..(Rec.n - Rec.nb) |-> Rec.nb + a]        \* exactly the iterations after burn-in
          /\ Rec.nb = Rec.nb_expected
          /\ (Rec.algo = "mean" => Rec.mean_ok)                            \* bit-equal to the mean of the kept draws
          /\ (Rec.algo = "mode" => \A i \in 1..Len(Rec.loss_ranks) :
                 /\ Rec.chosen[i] = Rec.kept[FirstArgmin(Rec.loss_ranks[i])]   \* lowest attachment + regularity, first on ties
                 /\ Rec.mode_values_ok)
\* the objective is evaluated by the harness AT THE RETURNED parameters of every individual, on that individual's own data:
\* not worse than at the starting point of its optimisation, and equal to the value reached by ITS optimisation (the values
\* filed under an identifier are those of that individual)
Optim == Rec.type = "optim" => (Rec.status = "ok" /\ Common /\ Rec.never_worse /\ Rec.values_belong_to_ids)
Conforms == Sampling /\ Optim
=============================================================================
