---- MODULE MC_IndParams ----
EXTENDS IndParams
\* incl. sequences where every identifier looks like a number, some in non-canonical form (leading zeros, exponent, decimal)
MCIdSeqs == {<<"a1">>, <<"7", "a1">>, <<"007", "7", "b_2">>, <<"007", "012">>, <<"1e3", "0040", "1.0", "7">>}
====
