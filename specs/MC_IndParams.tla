---- MODULE MC_IndParams ----
EXTENDS IndParams
MCIdSeqs == {<<"a1">>, <<"7", "a1">>, <<"007", "7", "b_2">>}
====
