---------------------------- MODULE Cohort ----------------------------
(***************************************************************************)
(* Conditional independence and order-equivariance of individuals.         *)
(* A cohort is a sequence of individuals [id, data, latent]; given the     *)
(* population values every per-individual quantity (attachment, regularity,*)
(* sampler decision, personalized parameters) is an uninterpreted function *)
(* Term(data, latent, draw) of the individual's OWN data, latent values    *)
(* and position-indexed draws.  Scenarios transform the cohort; the        *)
(* specification states which outputs must be unchanged.                   *)
(***************************************************************************)
EXTENDS Naturals, Sequences, FiniteSets, TLC
CONSTANTS Ids, DataVals, MaxN, WorkerCounts
VARIABLES cohort,     \* sequence of [id, data, latent]
          scen        \* <<"modify", j, newdata>> | <<"permute", p>> | <<"single", i>> | <<"workers", n>>
vars == <<cohort, scen>>
Perms(n) == {p \in [1..n -> 1..n] : \A a, b \in 1..n : a # b => p[a] # p[b]}
Injective(s) == \A a, b \in 1..Len(s) : a # b => s[a].id # s[b].id
Cohorts == {c \in UNION {[1..n -> [id : Ids, data : DataVals, latent : {0}]] : n \in 2..MaxN} : Injective(c)}
Scens(c) == UNION {{<<"modify", j, d>> : d \in DataVals \ {c[j].data}} : j \in 1..Len(c)}
            \cup {<<"permute", p>> : p \in Perms(Len(c)) \ {[i \in 1..Len(c) |-> i]}}
            \cup {<<"single", i>> : i \in 1..Len(c)}
            \cup {<<"workers", n>> : n \in WorkerCounts}
Init == cohort \in Cohorts /\ scen \in Scens(cohort)
Next == UNCHANGED vars
Spec == Init /\ [][Next]_vars

Term(ind, draw) == <<ind.data, ind.latent, draw>>                 \* what a per-individual output may depend on
Outputs(c, withDraws) == [i \in 1..Len(c) |-> [id |-> c[i].id, out |-> Term(c[i], IF withDraws THEN i ELSE 0)]]
Total(c) == {Outputs(c, FALSE)[i].out : i \in 1..Len(c)}           \* totals are sums of the per-individual terms (as a bag of terms)

Transformed == CASE scen[1] = "modify" -> [cohort EXCEPT ![scen[2]].data = scen[3]]
                 [] scen[1] = "permute" -> [i \in 1..Len(cohort) |-> cohort[scen[2][i]]]
                 [] scen[1] = "single" -> <<cohort[scen[2]]>>
                 [] scen[1] = "workers" -> cohort
ById(outs, id) == (CHOOSE i \in 1..Len(outs) : outs[i].id = id)
\* identifiers whose outputs must be unchanged by the scenario (bit-identical for "modify" and "workers")
Unchanged == CASE scen[1] = "modify" -> {cohort[i].id : i \in 1..Len(cohort)} \ {cohort[scen[2]].id}
               [] scen[1] = "permute" -> {cohort[i].id : i \in 1..Len(cohort)}
               [] scen[1] = "single" -> {cohort[scen[2]].id}
               [] scen[1] = "workers" -> {cohort[i].id : i \in 1..Len(cohort)}
DrawsComparable == scen[1] \in {"modify", "workers"}              \* same positions => same draws

OwnOnly == \A id \in Unchanged :
    Outputs(Transformed, FALSE)[ById(Outputs(Transformed, FALSE), id)].out = Outputs(cohort, FALSE)[ById(Outputs(cohort, FALSE), id)].out
OwnOnlyWithDraws == DrawsComparable => \A id \in Unchanged :
    Outputs(Transformed, TRUE)[ById(Outputs(Transformed, TRUE), id)].out = Outputs(cohort, TRUE)[ById(Outputs(cohort, TRUE), id)].out
Equivariant == scen[1] = "permute" => Total(Transformed) = Total(cohort)
OutputOrderFollowsInput == \A i \in 1..Len(Transformed) : Outputs(Transformed, FALSE)[i].id = Transformed[i].id
=============================================================================
