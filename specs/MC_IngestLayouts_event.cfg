SPECIFICATION Spec
CONSTANTS
  Layout = "event"
  Ids = {"a", "b"}
  ETs = {"0", "2", "nan"}
  EBs = {0, 1, 2}
  Covs = {"none"}
  Ages = {1}
  MaxRows = 3
  Family = "all"
  RequireAnEvent = TRUE
  RequireTwoCovValues = TRUE
INVARIANT PermutationInvariant
INVARIANT OnePerIndividual
INVARIANT AcceptedIsConsistent
