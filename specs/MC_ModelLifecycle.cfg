SPECIFICATION Spec
CONSTANTS
  Datasets = {"D1", "D2"}
  Seeds = {0, 1}
  MaxCalls = 5
  FitLeavesCohort = TRUE
  Script <- Free
INVARIANT ResultDependsOnlyOn
INVARIANT CallerInputsUntouched
INVARIANT PopAtMode
PROPERTY ModelUntouched
PROPERTY NothingLeftBehind
PROPERTY SeededRepeatable
CHECK_DEADLOCK FALSE
