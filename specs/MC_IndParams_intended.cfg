SPECIFICATION Spec
CONSTANTS
  IdSeqs <- MCIdSeqs
  Names = {"tau", "my_p", "sources"}
  Shapes = {"scalar", "len1", "len2", "len12"}
  Paths = {"df", "pt", "csv", "json", "json_sorted"}
  MaxParams = 2
  ScalarOK = TRUE
  UnderscoreOK = TRUE
INVARIANT Lossless
