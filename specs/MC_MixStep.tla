---- MODULE MC_MixStep ----
EXTENDS MixStep
V5 == -2..2
MCXs == {<<a, b>> : a \in V5, b \in V5} \cup {<<a, b, c>> : a \in V5, b \in {-1, 0, 2}, c \in {-2, 1}}
WV == {0, 1, 2, 4}
MCWs == {<<a, b>> : a \in WV, b \in WV} \cup {<<a, b, c>> : a \in WV, b \in WV, c \in WV}
MCMOlds == {<<-1, 1>>, <<0, 2>>}
====
