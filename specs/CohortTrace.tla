---------------------------- MODULE CohortTrace ----------------------------
(* code -> spec: each enumerated scenario was executed on a real model; the recorded relations must be the ones required. *)
EXTENDS Cohort, Json, IOUtils, SequencesExt
Log == ndJsonDeserialize(IOEnv.TRACE_FILE)
VARIABLE k
TInit == /\ k \in 1..Len(Log)
         /\ cohort = [i \in 1..Len(Log[k].ids) |-> [id |-> Log[k].ids[i], data |-> Log[k].data[i], latent |-> 0]]
         /\ scen = IF Log[k].scen = "modify" THEN <<"modify", Log[k].j, Log[k].newdata>>
                   ELSE IF Log[k].scen = "permute" THEN <<"permute", [i \in 1..Len(Log[k].perm) |-> Log[k].perm[i]]>>
                   ELSE IF Log[k].scen = "single" THEN <<"single", Log[k].j>> ELSE <<"workers", Log[k].j>>
TNext == UNCHANGED <<k, vars>>
TSpec == TInit /\ [][TNext]_<<k, vars>>
Rec == Log[k]
Conforms ==
   /\ Rec.status = "ok"
   /\ ToSet(Rec.unchanged_ids) = Unchanged                         \* the driver compared exactly the required individuals
   /\ Rec.terms_same                                                \* attachment / regularity terms of those individuals
   /\ Rec.totals_are_sums                                           \* population totals = sums of per-individual terms
   /\ Rec.output_ids = [i \in 1..Len(Transformed) |-> Transformed[i].id]    \* outputs keyed by input ids, in input order
   /\ (DrawsComparable => Rec.chain_same)                           \* sampler decisions / MCMC personalization of those individuals
   /\ Rec.optim_same                                                \* optimisation-based personalization of those individuals
   /\ (scen[1] = "permute" => Rec.totals_same)
=============================================================================
