---------------------------- MODULE OrthoBasis ----------------------------
(***************************************************************************)
(* Contract of leaspy.utils.linalg.compute_orthonormal_basis, the function *)
(* every model builds its mixing matrix from (C10, second sentence):       *)
(* for a direction d of dimension n, a metric G (a positive scalar, a      *)
(* positive vector = diagonal metric, or a matrix) and a column to strip,  *)
(* the result B has n rows and n - 1 columns, its columns are orthonormal  *)
(* for the canonical inner product, and every column is orthogonal to G d. *)
(* Cases are enumerated here; the numbers are seeded by the driver, which  *)
(* reports the three facts for the real function.                          *)
(***************************************************************************)
EXTENDS Naturals, TLC
CONSTANTS Dims, MetricKinds      \* e.g. 2..5 and {"scalar", "vector", "matrix"}
VARIABLES n, metric, strip
vars == <<n, metric, strip>>
Init == n \in Dims /\ metric \in MetricKinds /\ strip \in 0..(n - 1)
Next == UNCHANGED vars
Spec == Init /\ [][Next]_vars
\* (the contract itself is stated on the record in OrthoBasisTrace: nothing to check on the bare case table)
NonEmpty == n >= 2
=============================================================================
