SPECIFICATION Spec
CONSTANTS
  NMax = 5
  Inds = {1, 2}
  Levels = {0, 1, 2}
  RefuseEmpty = TRUE
INVARIANT KeptExactly
INVARIANT ModeIsArgmin
INVARIANT MeanOverKept
INVARIANT AcceptedReturns
CHECK_DEADLOCK FALSE
