---------------------------- MODULE MStepTrace ----------------------------
(* code -> spec: parameters produced by the real update rules on each enumerated case must be the closed forms. *)
EXTENDS MStep, Json, IOUtils
Log == ndJsonDeserialize(IOEnv.TRACE_FILE)
VARIABLE k
CellsOf(r) == [key \in {<<r.cells[i].i, r.cells[i].v, r.cells[i].f>> : i \in 1..Len(r.cells)} |->
                 (CHOOSE i \in 1..Len(r.cells) : <<r.cells[i].i, r.cells[i].v, r.cells[i].f>> = key) ]
TInit == /\ k \in 1..Len(Log) /\ xs = Log[k].xs /\ mold = Log[k].mold /\ burn = Log[k].burn
         /\ cells = [key \in DOMAIN CellsOf(Log[k]) |-> Log[k].cells[CellsOf(Log[k])[key]].c]
TNext == UNCHANGED <<k, vars>>
TSpec == TInit /\ [][TNext]_<<k, vars>>
Rec == Log[k]
\* the driver reports each result as the integer numerator over the specification's denominator (and whether the float was
\* within tolerance of that rational)
Same(obs, exp) == obs.den = exp[2] /\ obs.num = exp[1] /\ obs.close
Conforms == (Admissible /\ Rec.scale = "unit") =>
   /\ Rec.status = "ok"
   /\ Same(Rec.mean, MeanRule)
   /\ Same(Rec.var, VarRule)
   /\ Same(Rec.noise_scalar, NoiseVarScalar)
   /\ \A f \in Feats : Same(Rec.noise_ft[f], NoiseVarOf(f))
   /\ Rec.batch_ok             \* every update computed from the pre-step state, then assigned together
   /\ Rec.pop_identity         \* prior mean of a population variable = its (averaged) latent value
\* after the memory-less phase, a prior variance collapsing to exactly zero (every latent value equal to the pre-step mean): the step is
\* refused as a whole with the convergence error - no parameter keeps a value unrelated to the statistics, none is modified
Collapsed == ~burn /\ N >= 2 /\ VarRule[1] = 0 /\ (\A f \in Feats : NoiseVarOf(f)[2] > 0) /\ NoiseVarScalar[1] > 0
\* a dispersion that is positive but below the documented lower bound (1e-5) is a collapse as well - never floored: with latent
\* values scaled by 1/1000 around the pre-step mean the variance is VarRule / 10^6, below the bound iff VarRule < 10
BelowBound == Rec.scale = "tiny" /\ ~burn /\ N >= 2 /\ VarRule[1] > 0 /\ VarRule[1] < 10 * VarRule[2]
              /\ (\A f \in Feats : NoiseVarOf(f)[2] > 0) /\ NoiseVarScalar[1] > 0
RefusedWhole == /\ (Collapsed /\ Rec.scale = "unit") => (Rec.status = "LeaspyConvergenceError" /\ Rec.untouched)
                /\ BelowBound => (Rec.status = "LeaspyConvergenceError" /\ Rec.untouched)
Covered == IOEnv.EXPECT_COUNT = "0" \/ Cardinality({<<Log[i].xs, Log[i].mold, Log[i].burn, Log[i].cells>> : i \in {j \in 1..Len(Log) : Log[j].scale = "unit"}}) = atoi(IOEnv.EXPECT_COUNT)
=============================================================================
