SPECIFICATION Spec
CONSTANTS
  Fin <- MCFin
  Sent = {1000000, 1000001}
  Ops = {"add", "radd", "sub", "rsub", "mul", "rmul", "div", "rdiv", "lt", "le", "eq", "ne", "gt", "ge", "neg", "abs", "sq"}
  Kinds = {"number", "tensor", "matrix", "wt_same", "wt_none", "wt_none_matrix", "wt_other"}
INVARIANT MaskedStayMasked
INVARIANT ReflectedIsExchanged
