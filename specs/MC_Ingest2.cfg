SPECIFICATION Spec
CONSTANTS
  Ids = {"A", "B"}
  AgeKinds = {"1", "2"}
  ValKinds = {"x", "nan"}
  NFeat = 2
  MaxRows = 3
  IdKinds = {"str", "int", "cat", "negint", "float", "emptystr", "nanid", "mixed", "nullint", "catnan"}
  TextCols = {FALSE, TRUE}
INVARIANT OneRowPerIndividual
INVARIANT VisitsSorted
INVARIANT Aligned
INVARIANT CountsRight
INVARIANT PermutationInvariant
INVARIANT RejectsExactlyMalformed
