SPECIFICATION Spec
CONSTANTS
  Histories <- MCHist4
  PredTypes = {"last", "last_known", "max", "mean"}
  LmeCases <- MCLme
INVARIANT LastKnownExtendsLast
INVARIANT MeanBetween
INVARIANT Shrinks
