SPECIFICATION Spec
CONSTANTS
  Xs <- OneXs
  MOlds = {0}
  Burns = {TRUE, FALSE}
  CellGrids <- MCGrids
INVARIANT NoiseUsesObservedOnly
INVARIANT NoiseConsistent
