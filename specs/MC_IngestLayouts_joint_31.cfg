SPECIFICATION Spec
CONSTANTS
  Layout = "joint"
  Ids = {"a", "b"}
  ETs = {"2", "4"}
  EBs = {0, 1, 2}
  Covs = {"none"}
  Ages = {1, 2, 3}
  MaxRows = 3
  Family = "three_one"
  RequireAnEvent = TRUE
  RequireTwoCovValues = TRUE
INVARIANT PermutationInvariant
INVARIANT OnePerIndividual
INVARIANT AcceptedIsConsistent
