---------------------------- MODULE TrajectoryTrace ----------------------------
(* code -> spec: estimate() on enumerated requests and seeded parameter points; gauge / orthogonality scenarios on real states *)
EXTENDS Trajectory, Json, IOUtils
TLog == ndJsonDeserialize(IOEnv.TRACE_FILE)
VARIABLE k
ReqOf(r) == [i \in 1..Len(r) |-> <<r[i][1], r[i][2]>>]
TInit == /\ k \in 1..Len(TLog) /\ kind = TLog[k].kind /\ form = TLog[k].form
         /\ req = ReqOf(TLog[k].req) /\ xis = TLog[k].xis
         /\ term = TermOf(kind) /\ rows = Rows(req, form) /\ msq = MetricSqOf(kind) /\ dir = DirOf(kind)
TNext == UNCHANGED <<k, vars>>
TSpec == TInit /\ [][TNext]_<<k, vars>>
Rec == TLog[k]
RowsOf(r) == IF form = "dict" THEN [i \in 1..Len(r) |-> <<r[i].id, r[i].ages>>] ELSE [i \in 1..Len(r) |-> <<r[i][1], r[i][2]>>]
EstimateConforms == Rec.type = "estimate" =>
   /\ Rec.status = "ok"
   \* exactly the requested individuals and ages, requested order and layout (as built, an index request with a repeated
   \* <<id, age>> comes back with that row multiplied: accepted here, reported by the driver as a known finding)
   /\ \/ RowsOf(Rec.rows) = (IF form = "dict" THEN DictRows(req) ELSE req)
      \/ (form = "index" /\ RowsOf(Rec.rows) = IndexRowsAsBuilt(req, req))
   /\ Rec.shape_ok                          \* (number of ages, number of features) per individual
   /\ Rec.values_match                      \* every value equals the closed form of the model kind (term evaluated by the driver)
   /\ Rec.in_unit_interval /\ Rec.monotone /\ Rec.reference_value /\ Rec.far_finite
GaugeConforms == Rec.type = "gauge" =>
   /\ Rec.status = "ok"
   /\ Rec.traj_same /\ Rec.attach_same /\ Rec.event_same      \* re-centring changes no trajectory, attachment or event likelihood
                                                                \* (event_same also covers hazard / log-survival, the ingredients of the predicted event part)
   /\ Rec.zero_mean                                             \* and makes the log-accelerations zero-mean
   /\ Rec.orthogonal                                            \* every row of the mixing matrix is orthogonal to progression in the metric
                                                                \* (metric and direction: the terms msq / dir evaluated by the driver)
=============================================================================
