SPECIFICATION Spec
CONSTANTS
  Ids = {"A", "B"}
  AgeKinds = {"1", "2", "2r", "nan"}
  ValKinds = {"x", "y", "nan", "inf"}
  NFeat = 1
  MaxRows = 3
  IdKinds = {"str", "int"}
  TextCols = {FALSE}
INVARIANT OneRowPerIndividual
INVARIANT VisitsSorted
INVARIANT Aligned
INVARIANT CountsRight
INVARIANT PermutationInvariant
INVARIANT RejectsExactlyMalformed
