SPECIFICATION Spec
CONSTANTS
  Layout = "joint"
  Ids = {"a", "b"}
  ETs = {"0", "2", "nan"}
  EBs = {0, 1, 2}
  Covs = {"none"}
  Ages = {1, 2, 3}
  MaxRows = 3
  Family = "all"
  RequireAnEvent = TRUE
  RequireTwoCovValues = TRUE
INVARIANT PermutationInvariant
INVARIANT OnePerIndividual
INVARIANT AcceptedIsConsistent
