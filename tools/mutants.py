#!/venv/bin/python
"""Fault enumeration used while building the checks (not a registered check): line-level mutants of the files the properties
are anchored in are applied to a scratch worktree of /repo (never to /repo itself), the quick checks of the properties
anchored in the mutated file are run against that worktree (VERIF_LEASPY_SRC), and only for mutants that NO check
detects the repository's test suite is run: a mutant that survives both is either equivalent or a gap of the checks.

usage: mutants.py <worktree> <n_mutants> <seed> [file-substring ...]      results: <worktree>_mutants.jsonl
"""
import json
import os
import random
import re
import subprocess
import sys
import time

OPS = [
    (r"<=", "<"), (r">=", ">"), (r"(?<![<>=!])<(?![=<])", "<="), (r"(?<![<>=!-])>(?![=>])", ">="), (r"==", "!="), (r"!=", "=="),
    (r" \+ ", " - "), (r" - ", " + "), (r" \* ", " / "), (r" / ", " * "), (r" // ", " / "),
    (r"\.clone\(\)", ""), (r"deepcopy\(", "copy("), (r"sorted\(", "list("), (r"\bnot ", ""), (r" and ", " or "), (r" or ", " and "),
    (r"\bTrue\b", "False"), (r"\bFalse\b", "True"), (r"dim=0", "dim=1"), (r"dim=1", "dim=0"), (r"axis=0", "axis=1"), (r"axis=1", "axis=0"),
    (r"\bmax\(", "min("), (r"\bmin\(", "max("), (r"\.sum\(", ".mean("), (r"\.mean\(", ".sum("), (r"\[:-1\]", "[1:]"), (r" \+= ", " -= "),
    (r"\*\* 2", "** 1"), (r"0\.5", "0.4"), (r"\b1\.0\b", "0.9"), (r" 1 - ", " 1 + "), (r"\.abs\(\)", ""), (r"torch\.exp\(", "torch.expm1("),
    (r"accumulate=True", "accumulate=False"), (r"keepdim=True", "keepdim=False"), (r"\.detach\(\)", ""), (r"\bint\(", "round("),
]


def sites(path):
    out = []
    in_doc = False
    for i, line in enumerate(open(path).read().split("\n")):
        s = line.strip()
        if s.count('"""') == 1:
            in_doc = not in_doc
            continue
        if in_doc or not s or s.startswith("#") or s.startswith(('"""', "r\"\"\"", "import ", "from ", "raise ", "warnings.warn", "@", "def ", "class ")):
            continue
        code = line.split("  #")[0]
        if "Error(" in code or 'f"' in code and "(" not in code.split('f"')[0][-3:]:
            pass
        for k, (pat, rep) in enumerate(OPS):
            for m in re.finditer(pat, code):
                # skip matches inside string literals (crude: odd number of quotes before the match)
                if code[:m.start()].count('"') % 2 or code[:m.start()].count("'") % 2:
                    continue
                out.append((i, m.start(), m.end(), k))
    return out


def main():
    wt, n, seed = sys.argv[1], int(sys.argv[2]), int(sys.argv[3])
    filt = sys.argv[4:]
    anchors = {}
    for l in open("/verif/properties.jsonl"):
        d = json.loads(l)
        for f in d["anchors"]["files"]:
            if f.endswith(".py"):
                anchors.setdefault(f, []).append(d["id"])
    files = sorted(f for f in anchors if not filt or any(x in f for x in filt))
    rnd = random.Random(seed)
    allsites = []
    for f in files:
        for s in sites(os.path.join(wt, f)):
            allsites.append((f,) + s)
    rnd.shuffle(allsites)
    out_path = wt.rstrip("/") + "_mutants.jsonl"
    done = 0
    env = dict(os.environ, VERIF_LEASPY_SRC=os.path.join(wt, "src"), OMP_NUM_THREADS="2", VERIF_SCRATCH_OUT=wt.rstrip("/") + "_out")
    for f, i, a, b, k in allsites:
        if done >= n:
            break
        path = os.path.join(wt, f)
        src = open(path).read()
        lines = src.split("\n")
        old = lines[i]
        new = old[:a] + re.sub(OPS[k][0], OPS[k][1], old[a:b], count=1) + old[b:]
        if new == old:
            continue
        lines[i] = new
        open(path, "w").write("\n".join(lines))
        rec = {"file": f, "line": i + 1, "old": old.strip(), "new": new.strip(), "checks": {}, "detected": False}
        try:
            # does the package still import?
            p = subprocess.run(["/venv/bin/python", "-c", "import leaspy.models, leaspy.algo, leaspy.samplers, leaspy.io.data"],
                               env=dict(env, PYTHONPATH=os.path.join(wt, "src")), capture_output=True, text=True, timeout=120)
            if p.returncode != 0:
                rec["import_error"] = True
            else:
                for pid in anchors[f]:
                    t0 = time.time()
                    p = subprocess.run(["/verif/check", pid, "--tier", "quick"], env=env, capture_output=True, text=True, timeout=1500)
                    rec["checks"][pid] = {"exit": p.returncode, "wall": round(time.time() - t0), "violations": p.stdout.count("\nVIOLATION")}
                    if p.returncode == 1:
                        rec["detected"] = True
                        break
                if not rec["detected"]:
                    # undetected (or machinery failure): does the repository's own suite notice?
                    t0 = time.time()
                    p = subprocess.run(["/venv/bin/python", "-m", "pytest", "-q", "-x", "-p", "no:cacheprovider", "--timeout=900"], cwd=wt,
                                       env=dict(env, PYTHONPATH=os.path.join(wt, "src"), MPLBACKEND="Agg"), capture_output=True, text=True, timeout=3000)
                    rec["suite"] = {"exit": p.returncode, "wall": round(time.time() - t0), "tail": p.stdout.strip().splitlines()[-1][:160] if p.stdout.strip() else ""}
        except subprocess.TimeoutExpired:
            rec["timeout"] = True
        finally:
            open(path, "w").write(src)
            subprocess.run(["git", "-C", wt, "clean", "-fdq"])
        with open(out_path, "a") as fh:
            fh.write(json.dumps(rec) + "\n")
        done += 1
        st = "import-error" if rec.get("import_error") else ("DETECTED" if rec["detected"] else f"undetected; suite exit {rec.get('suite', {}).get('exit')}")
        print(f"[{done}] {f}:{i + 1}  {old.strip()[:70]!r} -> {new.strip()[:70]!r}: {st}", flush=True)


if __name__ == "__main__":
    main()
