#!/venv/bin/python
"""Apply a textual mutation to /repo (file, old, new), run the given checks, restore the file.
usage: mutcheck.py <relpath> <old> <new> <pid> [<pid>...]   (old/new are python-escaped strings)"""
import subprocess, sys, codecs
rel, old, new, *pids = sys.argv[1:]
old = codecs.decode(old, "unicode_escape"); new = codecs.decode(new, "unicode_escape")
path = "/repo/" + rel
src = open(path).read()
assert src.count(old) == 1, f"pattern occurs {src.count(old)} times"
open(path, "w").write(src.replace(old, new))
try:
    for pid in pids:
        p = subprocess.run(["/verif/check", pid, "--tier", "quick"], stdout=subprocess.PIPE, stderr=subprocess.STDOUT, text=True)
        lines = [l for l in p.stdout.splitlines() if l.startswith(("VIOLATION", "KNOWN", "MACHINERY", "  what", f"[{pid}] tier"))]
        print(f"== {pid}: exit {p.returncode}")
        print("\n".join(lines[:8]))
finally:
    open(path, "w").write(src)
    subprocess.run(["git", "-C", "/repo", "status", "--short"])
