#!/bin/bash
# usage: seed_regress.sh [Cxx ...] : apply every kept seeded change (seeded/<Cxx>-<k>/patch.diff) to /repo, run the quick check of its
# property, undo it; prints one line per seed and a summary (a seed is DETECTED when the check exits 1 with a VIOLATION line).
# /repo must be clean and nothing else may be running on it.
cd /repo && [ -z "$(git status --short)" ] || { echo "/repo is not clean"; exit 2; }
sel="$*"; miss=0; n=0
for d in /verif/seeded/C*/; do
  s=$(basename $d); p=${s%-*}
  [ -n "$sel" ] && [[ " $sel " != *" $p "* ]] && continue
  git -C /repo apply $d/patch.diff || { echo "$s PATCH DOES NOT APPLY"; miss=$((miss+1)); continue; }
  /verif/check $p --tier quick > /tmp/seedreg_$s.log 2>&1; rc=$?
  git -C /repo checkout -- .
  v=$(grep -c '^VIOLATION' /tmp/seedreg_$s.log); n=$((n+1))
  if [ $rc -eq 1 ] && [ $v -gt 0 ]; then echo "$s DETECTED ($v violations)"; else echo "$s MISSED (exit $rc)"; miss=$((miss+1)); fi
done
echo "seeds run: $n, not detected: $miss"
[ -z "$(git -C /repo status --short)" ] || echo "WARNING: /repo not clean"
