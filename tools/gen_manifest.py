#!/venv/bin/python
"""Generates /verif/MANIFEST.json from the table below (one entry per claimed property)."""
import json, os
ROOT = os.path.dirname(os.path.dirname(os.path.abspath(__file__)))
ALL = [f"C{i:02d}" for i in range(1, 21)]

CLAIMED = {
    "C01": dict(
        engine="StateCache",
        category="model_checking",
        text=("TLC checks Fresh / ReadTotal / CloneIsolation of specs/StateCache.tla on every history of State "
              "operations (set, put with indices/accumulate, read, precompute, full and per-individual revert, clone, "
              "fork-mode switch, clear) up to a bounded length on five toy graph shapes (definitions that name a default value for a "
              "parameter included; the graph the library derives from the definitions must be the declared one); the specification is bound to "
              "leaspy.variables.state.State in both directions: TLC-simulated behaviours are replayed into real State "
              "objects comparing the projected state after every step, and State events recorded from real fits, "
              "personalizations and random API histories on shipped model kinds are validated by TLC against "
              "StateCacheTrace.tla together with a from-scratch freshness probe."),
        note=("Bounded histories (MaxOps) and small value domains; real model graphs are covered by trace validation "
              "in the set/unset abstraction plus the numeric probe, not by exhaustive exploration. Trusted: TLC, the "
              "~60-line projection/replay code, torch determinism of recomputation."),
        technique="TLA+ spec + TLC exhaustive; spec->code replay; code->spec trace validation",
        design_ref="4/C01, 3.1",
    ),
    "C02": dict(
        engine="StateCache",
        category="model_checking",
        text=("TLC checks ForkFresh, ForkRestores, RevertFullExact, PartialRevertExact and Fresh of specs/StateCache.tla "
              "for every proposal value (inf / nan included), every per-individual mask and every read allowed by the "
              "documented contract; behaviours containing a revert are replayed into real State objects; revert events "
              "recorded from real samplers (all model kinds) carry a bit-exactness oracle and are validated by TLC "
              "against StateCacheTrace.tla."),
        note=("Bounded histories; the per-row exactness of real tensors is computed by the recorder and required "
              "by the trace specification. Trusted: TLC, recorder wrappers, torch.equal."),
        technique="TLA+ spec + TLC exhaustive; spec->code replay; code->spec trace validation",
        design_ref="4/C02, 3.1",
    ),
}

CLAIMED.update({
    "C03": dict(
        engine="Sampler", category="model_checking",
        text=("TLC checks the sampler protocol of specs/Sampler.tla (population kinds with 1-3 blocks in any order, the "
              "individual kind) for every proposal noise, alpha level (alpha >= 1 included) and uniform level: "
              "OneDrawPerDecision, OneProposalPerDraw, OnlyBlockTouched, AcceptIffBelow, DecisionLocal, RejectedIsSnapshot. "
              "Real sample() calls of Gibbs / FastGibbs / Metropolis-Hastings / individual samplers in fits with and without "
              "annealing, MCMC personalizations and non-finite scenarios are recorded (torch.randn / torch.rand outputs, "
              "state snapshots) together with from-scratch evaluations of D = d_attach + beta * d_regul at the old and proposed "
              "values; in half of the runs the uniform draws are chosen 0.2 % below / above the reference alpha (the abstract "
              "levels of the specification made concrete; u = 0 where alpha underflows); scenarios with prohibitive and NaN proposals "
              "for population blocks, for one individual and for every individual at once (a perfectly fitted cohort with noise 1e-4). SamplerTrace.tla decides every step."),
        note=("Ties |u - alpha| <= 1e-5 alpha accept either outcome (counted). The mixture model's target is transcribed as "
              "built. Generator quality is assumed. Trusted: TLC, the recorder, float64 evaluation of exp(-D)."),
        technique="TLA+ spec + TLC exhaustive; code->spec trace validation; directed draws at spec levels",
        design_ref="4/C03, 3.2"),
    "C04": dict(
        engine="MStep", category="model_checking",
        text=("TLC evaluates the closed forms of specs/MStep.tla exactly (rationals) on every cohort of 2-3 integer latent values "
              "x 3 pre-step means x {memory-less, normal} and on every observed / missing pattern of a 2x2x2 grid with a padded "
              "visit (VarNormalDominates, NoiseUsesObservedOnly, NoiseConsistent); each case is fed to the library's own update "
              "machinery on a mini variable graph (ModelParameter rules, Collect, Gaussian observation model, "
              "compute_sufficient_statistics, update_parameters) and TLC compares prior mean, prior variance, scalar and per-feature "
              "noise variance, compute-then-assign order and population-mean identity with the specification (MStepTrace.tla), "
              "checking that the records cover the space; the mixture model's rules are stated in specs/MixStep.tla (probabilities = mean "
              "responsibilities summing to one, responsibility-weighted cluster means, dispersions around the pre-step cluster mean, sample "
              "dispersion in the memory-less phase; ProbsSumToOne, MeanIsConvex, TotalMean, EqualSplit, VarNonNegative) and all 14420 cases "
              "(incl. an individual beyond the -100 floor of the responsibilities) are run through the model's own parameter declarations (MixStepTrace.tla); "
              "dispersions below the documented bound 1e-5 must be refused with an untouched state (BelowBound); real fits incl. the mixture model and a run without memory-less phase "
              "(entries missing inside visits, a starved mixture cluster) are validated against SaemTrace.tla: BatchUpdate, burn-in flag, "
              "statistics identity and, at every iteration, the closed forms evaluated by the recorder on the statistics in force and "
              "the data mask (noise = RMS residual over observed entries, probabilities = mean responsibilities summing to one, cluster means and dispersions of the mixture model = the MixStep.tla rules); a variance that "
              "collapses outside burn-in must be refused with an untouched state (RefusedWhole)."),
        note=("Exact on the enumerated integer cases (float32 squares compared within 2e-5 relative); composition argument: every "
              "iteration calls exactly these rule functions with the statistics in force and the pre-step state (trace-validated). "
              "Mixture responsibilities are bound only through fit traces."),
        technique="TLA+ closed forms evaluated exactly by TLC; spec-enumerated cases run on the code; trace validation of fits",
        design_ref="4/C04"),
    "C05": dict(
        engine="Saem", category="model_checking",
        text=("TLC checks PhaseRule, StepIndexRule, BurnInLength, PowerRefusedInv, BatchUpdate, SampledOnce and Termination of "
              "specs/Saem.tla over every configuration with n_iter <= 12 (burn-in as count or fraction in tenths / eighths, seven step powers incl. "
              "the refused 1/2, 11/10 and not-a-number) and every iteration; real fits of sampled configurations on several model kinds "
              "(some with the count loaded into the algorithm after its construction, some with a settings object that served a pilot run "
              "with another n_iter before, every fourth with a re-used algorithm object) are recorded (statistics of the "
              "iteration, statistics used, burn-in flag) and the derived facts - memoryless or not, the step index m that "
              "explains every component of S_k, the refusal of the constructor, the resolved burn-in length - are validated by "
              "TLC against SaemTrace.tla."),
        note=("The step index is recovered numerically from float32 statistics (relative tolerance 1e-5); iterations where no "
              "statistic moved are not observable and are counted. Trusted: TLC, the recorder (instance-level wrappers)."),
        technique="TLA+ spec + TLC exhaustive; code->spec trace validation of real fits",
        design_ref="4/C05, 3.3"),
    "C06": dict(
        engine="Masking", category="model_checking",
        text=("TLC checks NonInterference, CountsObserved and NeverNonFinite of the extended-real algebra of masked tensors "
              "(specs/Masking.tla: filled, weighted_value, wsum, weighted products, Gaussian attachment pipeline) for every mask, "
              "every pair of twins agreeing on the observed entries and every sentinel (NaN, inf, huge) at masked entries; every "
              "3-entry vector (all masks, sentinels at masked entries, bool / int / float weights) is run through the real "
              "WeightedTensor operations and compared by TLC with the algebra (MaskingTrace.tla); specs/WTAlgebra.tla: 17 operators "
              "(reflected ones, comparisons, negation, absolute value, square) x 7 operand kinds (broadcasting ones included) x every masking on real WeightedTensor "
              "objects - the masking is carried by every operation, two different maskings are refused, aggregates of the result see "
              "observed entries only (WTAlgebraTrace.tla); twin-dataset scenarios on real models (masked values and padded ages overwritten, extra padded visits, 25 % missing entries incl. partially "
              "observed visits) must give equal attachment terms, sufficient statistics, counts, initial and fitted parameters "
              "(memory phase included), trajectories at real visits and personalizations, an attachment equal to the sum of the "
              "entry-wise Gaussian / Bernoulli terms over observed entries, and a noise level equal to the RMSE over observed entries - "
              "also at every iteration, in and after the memory-less phase, of recorded fits with entries missing inside visits; the "
              "Bernoulli (binary) model is part of both tiers."),
        note=("Bit-identical when padding is unchanged; relative 1e-5 (personalization 1e-2 absolute) when the amount of padding "
              "differs. Scenario space sampled (fills x padding x kinds); algebra exhaustive for 2 entries."),
        technique="TLA+ algebra + TLC exhaustive; code->spec conformance of vector operations; twin-dataset scenario replay",
        design_ref="4/C06"),
    "C07": dict(
        engine="Cohort", category="model_checking",
        text=("TLC checks OwnOnly, OwnOnlyWithDraws, Equivariant and OutputOrderFollowsInput of specs/Cohort.tla for every cohort "
              "of 2-3 individuals (identifiers whose string order differs from numeric order, data variants incl. one with a "
              "non-finite attachment) and every scenario (modify another individual, every permutation, every single individual, "
              "2-3 workers); TLC-enumerated scenarios are executed on a real fitted model (per-individual terms at fixed latent "
              "values, totals, a seeded mean_posterior / mode_posterior chain, scipy_minimize with n_jobs 1-3 on uneven, non-monotone workloads, also on the threading backend with the first "
              "submitted individual finishing last; the modify scenarios also on a precisely observed cohort - noise 0.01, 40 visits - "
              "and on the joint model with an individual whose event precedes the population time-shift) and TLC checks the recorded "
              "relations (CohortTrace.tla): untouched individuals bit-identical when another is modified, per-identifier equality "
              "under permutation / alone / other worker counts, totals = sums, outputs keyed by input identifiers in input order; "
              "plus per-individual decision locality of the individual sampler, mixture model included (SamplerTrace.tla)."),
        note=("Optimisation results under permutation / alone / other worker counts are compared with tolerance (tau 0.1, others "
              "0.05): starting points are position-indexed draws, and worker processes differ in the last float bits (measured "
              "1e-3). Scenario space sampled with stratification."),
        technique="TLA+ spec + TLC exhaustive; spec-enumerated scenarios executed on the code; code->spec conformance",
        design_ref="4/C07"),
    "C08": dict(
        engine="Likelihood", category="other",
        text=("TLC enumerates the case structure of specs/Likelihood.tla (Gaussian; Bernoulli outcome x interior / saturated "
              "prediction; right-censored Weibull: censored / observed x event before / at / after the reference time x four shape "
              "classes incl. exactly 1 and 3 x with / without space shifts), builds the expected negative log-density of each case as "
              "a symbolic term (plus the hazard and log-survival terms of the Weibull cases after the reference time) and checks CensoredOnlySurvival, Finite and HazardTimesSurvival; each case is instantiated with seeded numeric points, the "
              "real distribution families are evaluated (single entries, per-feature scales, two competing events with opposite "
              "censoring flags; the hazard and log-survival the Weibull families hand out) and compared with the evaluated terms; TLC checks that every case conforms and that the records cover "
              "the case space (LikelihoodTrace.tla); model-level variables (individual priors, Gaussian attachment over observed "
              "entries, event attachment with an event moved before the reference time) are compared entry by entry with the same terms; "
              "events 2^-15 before / after the reference time are cases of their own (CloseIsOrdinary); an exception inside the support is a mismatch."),
        note=("Level 'other': the decision 'equals the density' rests on the generic float64 term evaluator (harness/terms.py) applied "
              "to terms stated in TLA+; TLC decides the case structure, coverage and the structural invariants. Tolerance 2e-4 "
              "relative (5e-4 Weibull)."),
        technique="TLA+ symbolic terms + case enumeration by TLC; numeric instantiation on the code; code->spec conformance",
        design_ref="4/C08, 2.4, 6"),
    "C09": dict(
        engine="Trajectory", category="other",
        text=("specs/Trajectory.tla states the trajectory of each model kind as a symbolic term (reparametrized age, logistic / linear / "
              "shared-speed logistic curve) and the layout machine of estimate(); TLC enumerates every request of 1-3 <<individual, "
              "age>> pairs (interleaved, repeated, unsorted) in dict and MultiIndex form and checks EchoIdsAndAges / OrderPreserved; "
              "each request is run through model.estimate on one model object per configuration whose parameters are replaced in place "
              "before every request, with seeded individual parameters and ages (sometimes exactly 0 or the reference time); TLC checks "
              "the returned rows against the layout machine and the verdicts (TrajectoryTrace.tla): values equal the evaluated term, "
              "outputs in [0,1], non-decreasing in age, 1/(1+g) at the reference time, finite far away; the joint model takes part with the "
              "dictionary layout (longitudinal columns)."),
        note=("Level 'other': value equality rests on the generic float64 term evaluator applied to TLA+ terms (tolerance 2e-5 + 2e-4 "
              "relative); TLC decides the layout machine exhaustively on the enumerated requests. Known finding: repeated rows in "
              "MultiIndex requests are multiplied."),
        technique="TLA+ symbolic terms + layout state machine; spec-enumerated requests run on the code; code->spec conformance",
        design_ref="4/C09"),
    "C10": dict(
        engine="Trajectory", category="other",
        text=("TLC checks ZeroMean and GaugeInvariant of the re-centring action of specs/Trajectory.tla exactly on every triple of "
              "integer log-accelerations; the enumerated triples are turned into real model states (logistic / linear / joint, with "
              "and without sources, seeded population values, optionally an extreme progressor, a large Weibull scale or a reverted "
              "proposal on the velocities), the real re-centring is applied and TLC checks the verdicts (TrajectoryTrace.tla): "
              "trajectories, attachments, event likelihoods and the hazard / log-survival of the event family unchanged, zero-mean log-accelerations, every mixing-matrix row "
              "orthogonal to the progression direction in the metric - both evaluated from the terms of Trajectory.tla part D, also "
              "for velocities near the single-precision floor, features far apart at the reference time, the shared-speed model and joint "
              "models with two kinds of events; specs/OrthoBasis.tla enumerates dimension 2-5 x metric kind (scalar / vector / matrix) x "
              "stripped column and the real compute_orthonormal_basis is checked on each (shape, Euclidean orthonormality, metric orthogonality)."),
        note=("Level 'other': invariance and orthogonality are numeric facts judged with tolerances 1e-5 (1 + |value|), 1e-4 relative (hazard / log-survival), 1e-6, 1e-5 "
              "||row|| ||G v0||; TLC decides the gauge algebra exactly and enumerates the patterns."),
        technique="TLA+ gauge algebra checked exactly by TLC; spec-enumerated patterns run on real states; code->spec conformance",
        design_ref="4/C10"),
    "C11": dict(
        engine="Saem", category="model_checking",
        text=("TLC checks LogExactlyWhenDue, LogReadOnly, AcceptedCompletes and Termination of specs/Saem.tla over every "
              "combination of print / save / plot / patient-plot periodicities, output path, folder state and overwrite flag; "
              "a covering sample of logging configurations is run as real fits whose per-iteration outputs, absence of mutation "
              "of the state and of the three RNG streams by the logging step, completion and bit-identity of the fitted "
              "parameters with the run without logging (also after RNG consumption, unrelated fits, a switch of torch's default dtype, "
              "a relative logs path with a change of directory in between, re-used algorithm objects and settings that travelled through a "
              "file) are validated by TLC against SaemTrace.tla; the seeded fit, three personalizations (scipy_minimize included) and two simulations are repeated in fresh "
              "interpreters under three string-hash seeds."),
        note=("Bit-identity is judged within one process on model.parameters. Trusted: TLC, recorder wrappers."),
        technique="TLA+ spec + TLC exhaustive; code->spec trace validation; seeded re-execution",
        design_ref="4/C11, 3.3"),
    "C13": dict(
        engine="ModelLifecycle", category="model_checking",
        text=("TLC checks ResultDependsOnlyOn, ModelUntouched, NothingLeftBehind, CallerInputsUntouched, PopAtMode and "
              "SeededRepeatable of specs/ModelLifecycle.tla on every history of up to 5 (6) API calls (fit, estimate - also as a table "
              "from a caller-owned mapping of ages -, three personalization algorithms - also with custom optimiser parameters -, "
              "simulate - also from a caller-owned table of visits with integer identifiers -, save, load, RNG consumption; 2 data sets, 2 seeds); TLC-simulated "
              "histories are replayed on real model objects: after every call the projected model state must be the "
              "specification's (training data / latent values present, population variables at prior modes, parameter and "
              "population hashes unchanged by queries, caller-owned table / Dataset object / settings objects (kept and re-used "
              "across calls, annealing switched on) / dict unchanged, no other State holding call data reachable from the model) "
              "and results carrying the same term <<call, params, inputs, seed>> must be bit-identical across different histories; "
              "ten directed histories (MC_ModelLifecycle.tla Script1-10: a query between two fits or not, before a save / load or "
              "not, failing calls in between) are generated by TLC and replayed in the same pool; a call that fails on its inputs "
              "(FailedCall) must raise and leave the model exactly as it was; settings objects: Settings.tla replayed on real "
              "AlgorithmSettings (isolation, read-only operations, save / load round trip, stable defaults)."),
        note=("A re-fit is modelled as built (continues from the latent values held in the state). Bounded histories; "
              "tiny cohorts and few iterations. Trusted: TLC, the replay driver, hashing of result arrays."),
        technique="TLA+ spec + TLC exhaustive; spec->code replay of call histories",
        design_ref="4/C13, 3.4"),
    "C14": dict(
        engine="Ingest", category="model_checking",
        text=("TLC checks OneRowPerIndividual, VisitsSorted, Aligned, CountsRight, PermutationInvariant (every row permutation) "
              "and RejectsExactlyMalformed of specs/Ingest.tla on every table of <= 3 rows (ages incl. a pair equal after "
              "rounding and NaN, values incl. NaN / inf, 1-2 features, 10 identifier typings (incl. nullable-integer and categorical columns with a missing identifier), text columns); TLC enumerates "
              "every table of <= 2 rows (3 thorough), each is built as a real DataFrame and ingested (Data.from_dataframe, "
              "Dataset, to_pandas, re-ingestion), and TLC compares the recorded canonical form, exception class, tensor "
              "padding / mask / counters and the untouched input with Canon(table) (IngestTrace.tla), checking that the records "
              "cover the enumerated space; larger tables are sampled. Event, joint and covariate layouts: TLC checks "
              "PermutationInvariant, OnePerIndividual and AcceptedIsConsistent of specs/IngestLayouts.tla on every table of <= 3 rows "
              "and on the family 'three rows of one individual in any age order + one row of another'; enumerated tables are "
              "ingested for real and TLC compares verdict, order, sorted visits with aligned values, event, covariate, tensor rows, "
              "untouched input and the re-ingested round trip with Canon(table) (IngestLayoutsTrace.tla)."),
        note=("Exhaustive on the enumerated small tables, larger ones sampled. Known finding: to_pandas sorts individuals by "
              "identifier. One defect fixed (covariate column names). As-built rules kept as named constants: all-censored "
              "event tables and single-valued covariates are refused; the event-only layout lists individuals sorted."),
        technique="TLA+ case table + TLC exhaustive; spec-enumerated cases run on the code; code->spec conformance",
        design_ref="4/C14"),
    "C15": dict(
        engine="VarGraph", category="model_checking",
        text=("TLC checks RejectExactly, TopoOrder and ClosureExact of the transcribed builder (specs/VarGraph.tla) on all 2^20 "
              "declarations over 4 nodes (unknown references and self loops included); the real VariablesDAG is run on every "
              "declaration over 3 nodes (4 in the thorough tier), on thousands of sampled DAGs / digraphs / dirty declarations "
              "up to 8 nodes with shuffled insertion orders, and on the graph of every shipped model kind, and TLC compares "
              "each recorded result (exception class, order, ordered closures) with Build(par) (VarGraphTrace.tla); both construction routes, "
              "a user-defined variable kind and linked variables without dependencies are part of the declarations."),
        note=("Exhaustive up to 4 nodes at design level and 3 (quick) / 4 (thorough) nodes at code level; larger graphs sampled. "
              "Refusals are compared by exception class."),
        technique="TLA+ transcription + TLC exhaustive; code->spec conformance of recorded results",
        design_ref="4/C15"),
    "C16": dict(
        engine="IndParams", category="model_checking",
        text=("TLC enumerates every container (5 identifier sequences incl. all-numeric ids in non-canonical form, 1-2 parameters out of 3 names x "
              "4 shapes incl. 12 components) x 5 conversion paths (table, tensor, csv, json, json with sorted keys) of specs/IndParams.tla and checks Lossless on the "
              "intended design and LosslessExceptNamed on the as-built one (two named deviations); every case is built as a "
              "real IndividualParameters with seeded values, converted there and back, and TLC compares status, names, shapes, "
              "identifiers and value equality with Expected (IndParamsTrace.tla), checks the addition rules (11 refusals, 1 "
              "acceptance per case, on the built container and again on the converted one) and that the records cover the whole space."),
        note=("Exhaustive over the stated finite case space; values are seeded samples. Two known findings (scalar shapes, "
              "underscore in names) are modelled as named deviations so that any other deviation is still reported."),
        technique="TLA+ case table + TLC exhaustive; spec-enumerated cases run on the code; code->spec conformance",
        design_ref="4/C16"),
    "C19": dict(
        engine="Saem", category="model_checking",
        text=("TLC checks TempStart, TempFloor, TempMonotone, TempOnlyAtBoundaries, TempOneAfterAnnealing, NoAnnealingIsOne, "
              "AcceptedCompletes and Termination of specs/Saem.tla with the temperature as an exact rational over every "
              "annealing configuration with n_iter <= 12, <= 6 plateaus and five initial temperatures (plus DecrementsClosedForm); for "
              "ARBITRARY run lengths, annealing lengths, plateau counts and initial temperatures > 1 Apalache discharges the inductive "
              "invariant of specs/AnnealInd.tla (decrements = floor(min(k, nAnn) / period)) and its consequences (temperature exactly "
              "one after the annealing phase, never below one, never rising), a deliberately false invariant being refuted; sampled configurations "
              "are run as real fits (a quarter of them as two consecutive runs of one algorithm object) and the temperature after every iteration (and the refusal / completion of the "
              "configuration) is validated by TLC against SaemTrace.tla; proposal scales: Sampler.tla StdEnvelope and the "
              "recorded adaptation of real samplers judged with the CONFIGURED (non-default, different per sampler family) window "
              "length, target band and factor."),
        note=("Float temperature compared with the exact rational within 8*P ulps and literally 1.0 where the specification "
              "says 1. A single plateau is the documented degenerate scheme."),
        technique="TLA+ spec + TLC exhaustive (+ Apalache inductive invariant for unbounded parameters); code->spec trace validation of real fits",
        design_ref="4/C19, 3.3, 3.2"),
})

CLAIMED.update({
    "C12": dict(
        engine="SaveLoad", category="model_checking",
        text=("TLC enumerates every valid configuration of specs/SaveLoad.tla (4 model kinds x dimension 1-3 given or not x source "
              "dimension unspecified / 0 / 1 / 2 x noise default / scalar / diagonal x named, default, integer-labelled or header-like odd (blanks, slash, dot, tab, non-ASCII) feature names x instance name = "
              "kind or custom x origin: fit with 1-3 averaging iterations, hand-written file, fitted object edited through load_parameters, fitted "
              "object calibrated again - the last two after the object answered trajectory requests and was saved to / loaded from the very "
              "same path: 4656 configurations) and checks SurvivesSaveLoad on the intended "
              "design and SurvivesExceptNamed on the as-built one (three named deviations); configurations are executed on the real "
              "code (tiny fit, save, load, optional hand-edited file, re-save): population variables at prior modes after the fit, "
              "derived values consistent with the saved parameters, load outcome, parameters / hyper-parameters / trajectories at "
              "5 ages equal to single precision, re-saved file equal in structure and to single precision; TLC compares every "
              "record with Expected (SaveLoadTrace.tla) and checks coverage."),
        note=("Quick tier runs a stratified sample of the configurations, thorough all of them. 'Reproduces the file' is judged on "
              "the JSON content (structure, numbers to single precision, version field ignored). Three known findings modelled as "
              "named deviations."),
        technique="TLA+ case table + TLC exhaustive; spec-enumerated configurations run on the code; code->spec conformance",
        design_ref="4/C12"),
    "C17": dict(
        engine="Personalize", category="model_checking",
        text=("TLC checks KeptExactly, ModeIsArgmin (first draw on ties), MeanOverKept and AcceptedReturns of specs/Personalize.tla "
              "for every number of iterations <= 5, every burn-in length, 2 individuals and 3 abstract loss levels; real "
              "mean_posterior / mode_posterior runs (model kinds x n_iter 2-6 x burn-in fractions incl. 0 and 1 x annealing x cohorts "
              "with missing data, a one-visit subject, identifiers in non-sorted order, a subject whose scores are all missing) are recorded - the chain after every "
              "iteration with its own attachment + regularity, the samples handed to the estimator - and TLC checks "
              "(PersonalizeTrace.tla) that exactly the iterations after burn-in are kept, the mode is the first kept draw of lowest "
              "loss (read from the chain) per individual, the mean is bit-equal to the mean of the kept draws, outputs are keyed by "
              "the input identifiers in input order, finite and shaped as the model expects; scipy_minimize runs (default budget and "
              "a one-iteration budget ending on a convergence issue) are recorded through the optimiser call and the harness evaluates "
              "the objective of every individual at the RETURNED parameters on its own data: not worse than at the starting point "
              "of its optimisation and equal to the value its optimisation reached."),
        note=("Sampled settings (stratified); the chain is matched to the kept samples by bit-equality. Known finding: the mixture "
              "model cannot be personalized. One defect fixed (burn-in covering all iterations)."),
        technique="TLA+ spec + TLC exhaustive; code->spec conformance of recorded personalizations",
        design_ref="4/C17, 9"),
    "C18": dict(
        engine="SimDesign", category="model_checking",
        text=("TLC enumerates every design with at most 2 (3 thorough) attributes off the valid base over 15 attribute classes of "
              "specs/SimDesign.tla (visit type, patient number kinds incl. a single individual, standard deviations, mean / std of "
              "the interval incl. a std comparable to the mean, minimal spacing, follow-up zero / decades long, feature list kinds, "
              "missing parameter, table columns / null ages / identifier typing / rows out of order with a repeated age / late ages, "
              "model with / without sources, per-feature noise just fitted / scalar noise loaded from a file) and checks Honoured (valid => completes, invalid => refused); every enumerated design is "
              "made concrete and run on a real fitted model under a 10 s watchdog; TLC compares the outcome class (completes / "
              "refused / crash class / timeout) with Outcome and checks the post-conditions of completed runs: exact individuals, "
              "unique increasing ages rounded to the precision implied by the spacing, finite values in [0,1] for every feature, one "
              "parameter set per individual, and the caller's design untouched and honoured again by a second simulation (SimDesignTrace.tla)."),
        note=("The ten deviations found on the tree as given (D2-D11) were repaired by 'fix:' commits; the specification keeps the "
              "named-deviation mechanism (constant Deviations, empty). Non-termination is judged by a 10 s watchdog (valid small "
              "designs take < 1 s)."),
        technique="TLA+ case table + TLC exhaustive; spec-enumerated designs run on the code; code->spec conformance",
        design_ref="4/C18, 9"),
    "C20": dict(
        engine="Benchmarks", category="model_checking",
        text=("TLC evaluates the four estimators of the constant model exactly on every history of 1-3 visits (all age orders, values "
              "in {1,2,3,NaN}) and the conditional means of the LME random effects exactly (closed 1x1 / 2x2 inverse) on integer "
              "cases (specs/Benchmarks.tla: LastKnownExtendsLast, MeanBetween, Shrinks); every enumerated case (x the previous use of the same model "
              "object: fresh / another data set with swapped columns or other feature names / trajectories of other individuals) is run "
              "through ConstantModel.personalize / estimate and, with parameters injected through load_parameters, through "
              "LMEModel.personalize / estimate (half of the LME cases with an extra visit whose value is missing), and asked twice - the second time "
              "with the individual parameters rebuilt in another key order; TLC compares the results, as numerators over the specification's denominators, with "
              "the specification (BenchmarksTrace.tla); fitted univariate cohorts with and without random slope are compared with "
              "the reference mixed-model library's random effects on the training individuals."),
        note=("Exact on the enumerated cases (float64 results compared with rationals within 1e-9 relative); agreement with the "
              "reference library within 1e-4 relative."),
        technique="TLA+ closed forms evaluated exactly by TLC; spec-enumerated cases run on the code; code->spec conformance",
        design_ref="4/C20"),
})

ENGINES = {
    "SaveLoad": dict(path="specs/SaveLoad.tla", kind="TLA+ case table of model configurations through fit / save / load (+ SaveLoadTrace.tla)"),
    "Personalize": dict(path="specs/Personalize.tla", kind="TLA+ state machine of sampling-based personalization bookkeeping (+ PersonalizeTrace.tla)"),
    "SimDesign": dict(path="specs/SimDesign.tla", kind="TLA+ case table of simulation designs: validity, outcome, post-conditions (+ SimDesignTrace.tla)"),
    "Benchmarks": dict(path="specs/Benchmarks.tla", kind="TLA+ exact estimators of the constant and LME benchmark models (+ BenchmarksTrace.tla)"),
    "Trajectory": dict(path="specs/Trajectory.tla", kind="TLA+ trajectory terms, estimate() layout machine and gauge algebra (+ TrajectoryTrace.tla)"),
    "Likelihood": dict(path="specs/Likelihood.tla", kind="TLA+ symbolic negative log-densities with Weibull case structure (+ LikelihoodTrace.tla)"),
    "Masking": dict(path="specs/Masking.tla", kind="TLA+ extended-real algebra of masked tensors (+ MaskingTrace.tla)"),
    "Cohort": dict(path="specs/Cohort.tla", kind="TLA+ scenario table of cohort transformations (+ CohortTrace.tla)"),
    "MStep": dict(path="specs/MStep.tla", kind="TLA+ closed forms of the maximization rules (+ MStepTrace.tla)"),
    "IndParams": dict(path="specs/IndParams.tla", kind="TLA+ case table of individual-parameter conversions (+ IndParamsTrace.tla)"),
    "ModelLifecycle": dict(path="specs/ModelLifecycle.tla", kind="TLA+ state machine of API call histories on a model object"),
    "Ingest": dict(path="specs/Ingest.tla", kind="TLA+ case table of table ingestion (+ IngestTrace.tla)"),
    "Sampler": dict(path="specs/Sampler.tla", kind="TLA+ state machine of one Metropolis-within-Gibbs sampler (+ SamplerCore.tla, SamplerTrace.tla)"),
    "Saem": dict(path="specs/Saem.tla", kind="TLA+ state machine of one MCMC-SAEM run (+ SaemTrace.tla, MC_Saem*.cfg)"),
    "VarGraph": dict(path="specs/VarGraph.tla", kind="TLA+ transcription of the dependency-graph builder (+ VarGraphTrace.tla)"),
    "StateCache": dict(path="specs/StateCache.tla", kind="TLA+ state machine of the cached variable graph (+ StateCacheTrace.tla)"),
    # secondary modules (each check names its primary engine; these serve the listed checks as well)
    "MixStep": dict(path="specs/MixStep.tla", kind="TLA+ closed forms of the mixture model's maximization rules, exact rationals (+ MC_MixStep, MixStepTrace.tla)", serves=["C04"]),
    "WTAlgebra": dict(path="specs/WTAlgebra.tla", kind="TLA+ case table of WeightedTensor operators x operand kinds x maskings (+ WTAlgebraTrace.tla)", serves=["C06"]),
    "AnnealInd": dict(path="specs/AnnealInd.tla", kind="typed TLA+ transition system of the annealing counter with arbitrary parameters; inductive invariant discharged by Apalache", serves=["C19"]),
    "OrthoBasis": dict(path="specs/OrthoBasis.tla", kind="TLA+ case table of the orthonormal basis of the space shifts (+ OrthoBasisTrace.tla)", serves=["C10"]),
    "Settings": dict(path="specs/Settings.tla", kind="TLA+ state machine of AlgorithmSettings objects (defaults, merge, mutation, save / load, algorithm creation); spec->code replay", serves=["C13", "C11"]),
    "IngestLayouts": dict(path="specs/IngestLayouts.tla", kind="TLA+ case table of event / joint / covariate table layouts (+ IngestLayoutsTrace.tla)", serves=["C14"]),
    "DataContainer": dict(path="specs/DataContainer.tla", kind="TLA+ case table of chains of selections on the Data container (+ DataContainerTrace.tla); conformance notes only", serves=["C14"]),
    "SamplerTrace": dict(path="specs/SamplerTrace.tla", kind="trace specification of recorded sample() calls (reused by the checks on rejected proposals, decision locality, proposal scales)", serves=["C02", "C07", "C19"]),
    "SaemTrace": dict(path="specs/SaemTrace.tla", kind="trace specification of recorded fits: schedule, batched update, closed forms on the statistics in force, temperature, logging", serves=["C04", "C05", "C06", "C11", "C19"]),
}

REASON_PENDING = "check not built yet at this commit (build in progress, see DESIGN.md section 8); not claimed until its check exists"


def main():
    checks = []
    for pid in ALL:
        if pid not in CLAIMED:
            continue
        c = CLAIMED[pid]
        checks.append({
            "property_id": pid,
            "quick_cmd": f"./check {pid} --tier quick",
            "thorough_cmd": f"./check {pid} --tier thorough",
            "evidence_file": f"/verif/evidence/{pid}.json",
            "replay_cmd_template": f"./check {pid} --replay {{path}}",
            "engine": c["engine"],
            "level_claimed": {"category": c["category"], "text": c["text"], "design_ref": c["design_ref"]},
            "level_note": c["note"],
            "technique": c["technique"],
        })
    engines = []
    for name, e in ENGINES.items():
        engines.append({"name": name, "path": e["path"], "kind_free_text": e["kind"],
                        "serves_properties": sorted(set([p for p, c in CLAIMED.items() if c["engine"] == name] + e.get("serves", [])))})
    m = {
        "version": 1,
        "setup_cmd": "true",
        "hooks": {
            "guard": "LEASPY_VERIF_WRAP",
            "enable": ("no source hooks: recorders are run-time wrappers installed by /verif/harness/wrap.py inside the "
                       "check's own process (the ./check script sets LEASPY_VERIF_WRAP=1); leaspy is imported from /repo/src"),
            "baseline_off_cmd": "cd /repo && /venv/bin/python -m pytest -ra -q -p no:cacheprovider --timeout=900 --continue-on-collection-errors",
            "source_commits": [],
            "add_only": True,
        },
        "engines": engines,
        "checks": checks,
        "notes": ("Defect repairs in /repo are 'fix:' commits listed in known_findings.json (status fixed). "
                  "Exit codes: 0 held, 1 VIOLATION, 2 machinery failure."),
        "not_applicable": [{"property_id": p, "reason": REASON_PENDING} for p in ALL if p not in CLAIMED],
    }
    with open(os.path.join(ROOT, "MANIFEST.json"), "w") as f:
        json.dump(m, f, indent=1)
    import jsonschema
    jsonschema.validate(m, json.load(open("/root/.vp/MANIFEST.schema.json")))
    print("MANIFEST.json written:", len(checks), "checks")


if __name__ == "__main__":
    main()
