#!/bin/bash
# usage: neutralcheck.sh <patch.diff> <Cxx> [...] : apply a behaviour-preserving change to /repo, run the quick checks (all must exit 0), undo it
PATCH=$1; shift
cd /repo && git apply "$PATCH" || { echo "cannot apply $PATCH"; exit 2; }
bad=0
for pid in "$@"; do
  /verif/check $pid --tier quick > /tmp/neutralcheck_$pid.log 2>&1; rc=$?
  if [ $rc -ne 0 ]; then bad=1; echo "== $pid exit=$rc  FALSE ALARM / MACHINERY on a neutral change"; grep -A2 "^VIOLATION\|^MACHINERY\|Error" /tmp/neutralcheck_$pid.log | cut -c1-400 | head -12; else echo "== $pid exit=0"; fi
done
git -C /repo checkout -- . ; git -C /repo status --short
exit $bad
