#!/bin/bash
# usage: seedcheck.sh <patch.diff> <Cxx> [<Cyy> ...] : apply a seeded change to /repo, run the quick checks, undo it
PATCH=$1; shift
cd /repo && git apply "$PATCH" || { echo "cannot apply $PATCH"; exit 2; }
for pid in "$@"; do
  /verif/check $pid --tier ${TIER:-quick} > /tmp/seedcheck_$pid.log 2>&1; rc=$?
  echo "== $pid exit=$rc  ($(grep -c '^VIOLATION' /tmp/seedcheck_$pid.log) violations)"
  grep -A1 "^VIOLATION\|^MACHINERY" /tmp/seedcheck_$pid.log | cut -c1-330 | head -6
done
git -C /repo checkout -- . ; git -C /repo status --short
