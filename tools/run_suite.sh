#!/bin/sh
# Runs the repository's pinned baseline suite (guard off) and removes the 4 untracked files it leaves behind.
# usage: tools/run_suite.sh [logfile]
LOG=${1:-/tmp/leaspy_suite.log}
cd /repo || exit 2
env -u LEASPY_VERIF_WRAP /venv/bin/python -m pytest -ra -q -p no:cacheprovider --timeout=900 --continue-on-collection-errors > "$LOG" 2>&1
rc=$?
for f in logistic_parallel_binary logistic_parallel_diag_noise logistic_parallel_diag_noise_no_source logistic_parallel_scalar_noise; do
  git ls-files --error-unmatch "tests/_data/model_parameters/from_fit/$f.json" >/dev/null 2>&1 || rm -f "tests/_data/model_parameters/from_fit/$f.json"
done
tail -1 "$LOG"
exit $rc
