#!/venv/bin/python
"""neutral_regress.py <scratch worktree> [Cxx ...]: re-apply every kept behaviour-preserving change (neutral/<name>/patch.diff) to a
scratch worktree of /repo and run, against that worktree (VERIF_LEASPY_SRC), the quick checks listed for it in neutral/README.md;
every check must exit 0.  /repo itself is not touched."""
import os, re, subprocess, sys
wt = sys.argv[1]
only = set(sys.argv[2:])
rows = {}
for line in open("/verif/neutral/README.md"):
    m = re.match(r"\| (C\d\d)-([\d., -]+(?:, C\d\d-\d)*) \| .* \| ((?:C\d\d ?)+)\|", line)
    if not m:
        continue
    prop = m.group(1)
    checks = m.group(3).split()
    for d in sorted(os.listdir("/verif/neutral")):
        if d.startswith(prop + "-"):
            # the row of this change: the one that lists its index (ranges a..b and lists)
            k = int(d.split("-")[1])
            spec = line.split("|")[1]
            ks = set()
            for part in re.findall(rf"{prop}-(\d)(?:\.\.(\d))?", spec):
                a = int(part[0]); b = int(part[1] or a)
                ks |= set(range(a, b + 1))
            if k in ks:
                rows[d] = checks
env = dict(os.environ, VERIF_LEASPY_SRC=os.path.join(wt, "src"), VERIF_SCRATCH_OUT=wt.rstrip("/") + "_out", OMP_NUM_THREADS="2")
bad = 0
for d, checks in sorted(rows.items()):
    subprocess.run(["git", "-C", wt, "checkout", "-q", "--", "."], check=True)
    if subprocess.run(["git", "-C", wt, "apply", f"/verif/neutral/{d}/patch.diff"]).returncode != 0:
        print(d, "PATCH DOES NOT APPLY"); bad += 1; continue
    for c in checks:
        if only and c not in only:
            continue
        r = subprocess.run(["/verif/check", c, "--tier", "quick"], env=env, capture_output=True, text=True)
        ok = r.returncode == 0 and "VIOLATION" not in r.stdout
        print(d, c, "silent" if ok else f"ALARM exit={r.returncode}", flush=True)
        if not ok:
            bad += 1
            print("\n".join(l[:300] for l in r.stdout.splitlines() if l.startswith(("VIOLATION", "MACHINERY", "  what"))))
subprocess.run(["git", "-C", wt, "checkout", "-q", "--", "."], check=True)
print("alarms:", bad)
