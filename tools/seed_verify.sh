#!/bin/bash
# usage: seed_verify.sh <Cxx> <k> : confirm a seeded change in its scratch worktree /tmp/seed_<Cxx>
# (demo passes clean / fails patched; full test suite passes with the patch).  Result in /tmp/seed_<Cxx>_out/<k>/verify.txt
P=$1; K=$2; WT=/tmp/seed_$P; OUT=/tmp/seed_${P}_out/$K
cd $WT || exit 2
git checkout -q -- . ; git clean -fdq
export PYTHONPATH=$WT/src OMP_NUM_THREADS=2 MPLBACKEND=Agg
{
echo "== clean demo"; /venv/bin/python $OUT/demo.py > $OUT/verify_demo_clean.log 2>&1; echo "exit=$?"
git apply $OUT/patch.diff || { echo "PATCH DOES NOT APPLY"; exit 1; }
echo "== patched demo"; /venv/bin/python $OUT/demo.py > $OUT/verify_demo_patched.log 2>&1; echo "exit=$?"
echo "== suite with patch"; /venv/bin/python -m pytest -q -p no:cacheprovider --timeout=900 --continue-on-collection-errors > $OUT/verify_suite.log 2>&1; echo "exit=$?"; tail -1 $OUT/verify_suite.log
git checkout -q -- . ; git clean -fdq
} > $OUT/verify.txt 2>&1
cat $OUT/verify.txt
