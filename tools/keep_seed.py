#!/venv/bin/python
"""keep_seed.py <Cxx> <k> : copy a confirmed seeded change from /tmp/seed_<Cxx>_out/<k> to /verif/seeded/<Cxx>-<k>/ with meta.json"""
import json, os, shutil, sys, re
pid, k = sys.argv[1], sys.argv[2]
dk = sys.argv[3] if len(sys.argv) > 3 else k
src = f"/tmp/seed_{pid}_out/{k}"
dst = f"/verif/seeded/{pid}-{dk}"
os.makedirs(dst, exist_ok=True)
for f in ("patch.diff", "demo.py", "README.md"):
    shutil.copy(os.path.join(src, f), os.path.join(dst, f))
ver = open(os.path.join(src, "verify.txt")).read()
readme = open(os.path.join(src, "README.md")).read()
m = re.findall(r"exit=(\d+)", ver)
meta = {
    "property": pid,
    "seed": f"{pid}-{dk}",
    "origin": "independent sub-agent given only the property text and a scratch worktree",
    "needs_to_manifest": readme.strip().split("\n\n")[1][:900] if "\n\n" in readme else readme[:900],
    "confirmed_by_me": {
        "how": "tools/seed_verify.sh in the scratch worktree: demo on clean tree, git apply patch.diff, demo again, full pinned test suite with the patch",
        "demo_exit_clean": int(m[0]), "demo_exit_patched": int(m[1]), "suite_exit_with_patch": int(m[2]),
        "suite_summary": ver.strip().splitlines()[-1],
    },
    "detected_by": [],
}
json.dump(meta, open(os.path.join(dst, "meta.json"), "w"), indent=1)
print(dst, meta["confirmed_by_me"])
