#!/venv/bin/python
"""seed_regress_wt.py <scratch worktree> [Cxx ...]: like seed_regress.sh, but the kept seeded changes are applied to a scratch
worktree of /repo and the quick check of each change's property runs against that worktree (VERIF_LEASPY_SRC), so that /repo
stays untouched and several regressions can run side by side.  A seed is DETECTED when the check exits 1 with a VIOLATION line."""
import os, subprocess, sys
wt = sys.argv[1]
sel = set(sys.argv[2:])
env = dict(os.environ, VERIF_LEASPY_SRC=os.path.join(wt, "src"), VERIF_SCRATCH_OUT=wt.rstrip("/") + "_out", OMP_NUM_THREADS="2")
n = miss = 0
for d in sorted(os.listdir("/verif/seeded")):
    if not d.startswith("C"):
        continue
    p = d.split("-")[0]
    if sel and p not in sel:
        continue
    subprocess.run(["git", "-C", wt, "checkout", "-q", "--", "."], check=True)
    if subprocess.run(["git", "-C", wt, "apply", f"/verif/seeded/{d}/patch.diff"]).returncode != 0:
        print(d, "PATCH DOES NOT APPLY", flush=True); miss += 1; continue
    r = subprocess.run(["/verif/check", p, "--tier", "quick"], env=env, capture_output=True, text=True)
    v = sum(1 for l in r.stdout.splitlines() if l.startswith("VIOLATION"))
    n += 1
    if r.returncode == 1 and v:
        print(d, f"DETECTED ({v} violations)", flush=True)
    else:
        print(d, f"MISSED (exit {r.returncode})", flush=True); miss += 1
subprocess.run(["git", "-C", wt, "checkout", "-q", "--", "."], check=True)
print(f"seeds run: {n}, not detected: {miss}")
