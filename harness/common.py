"""Check context: counters, samples, violations, known findings, evidence."""
from __future__ import annotations

import hashlib
import json
import os
import shutil
import tempfile
import time

ROOT = os.path.dirname(os.path.dirname(os.path.abspath(__file__)))
KNOWN = os.path.join(ROOT, "known_findings.json")
# development aid (never set by MANIFEST): runs against a scratch checkout write their evidence / replays elsewhere
OUT_ROOT = os.environ.get("VERIF_SCRATCH_OUT") or ROOT


def _jsonable(x):
    if isinstance(x, dict):
        return {str(k): _jsonable(v) for k, v in x.items()}
    if isinstance(x, (list, tuple)):
        return [_jsonable(v) for v in x]
    if isinstance(x, (set, frozenset)):
        return sorted((_jsonable(v) for v in x), key=repr)
    if isinstance(x, (str, int, bool)) or x is None:
        return x
    if isinstance(x, float):
        return x if x == x and abs(x) != float("inf") else repr(x)
    try:
        import numpy as np
        if isinstance(x, np.generic):
            return _jsonable(x.item())
    except Exception:
        pass
    return repr(x)


class Ctx:
    def __init__(self, pid: str, tier: str, seed: int):
        self.pid = pid
        self.tier = tier
        self.seed = seed
        self.quick = tier == "quick"
        self.t0 = time.time()
        self.tmp = tempfile.mkdtemp(prefix=f"verif_{pid}_")
        self.level = "model_checking"
        self.states = 0
        self.transitions = 0
        self.traces = 0
        self.evaluations = 0
        self.distinct = set()
        self.samples = []
        self.rule = ""
        self.assumptions = []
        self.extra = {}
        self.exhaustive = None
        self.violations = []          # (signature, what, replay_path)
        self.known_hits = {}          # finding id -> what
        self.tlc_runs = []
        with open(KNOWN) as f:
            self.known = [k for k in json.load(f)["findings"] if k["property"] == pid]

    # ---- bookkeeping -------------------------------------------------
    def add_tlc(self, name, res):
        self.states += res.distinct
        self.transitions += res.generated
        self.tlc_runs.append({"config": name, "generated": res.generated, "distinct": res.distinct,
                              "depth": res.depth, "wall_s": round(res.wall, 1), "ok": res.ok,
                              "violated": res.violated})

    def case(self, key=None, n=1):
        self.evaluations += n
        if key is not None:
            self.distinct.add(key if isinstance(key, (str, int, tuple)) else repr(key))

    def sample(self, s, cap=6):
        if len(self.samples) < cap:
            self.samples.append(_jsonable(s))

    def log(self, *a):
        print(f"[{self.pid} {time.time()-self.t0:6.1f}s]", *a, flush=True)

    # ---- verdicts ----------------------------------------------------
    def violation(self, signature: dict, what: str, replay=None):
        """Report a disagreement. Matched against open known findings by structural signature."""
        for k in self.known:
            if k.get("status") == "open" and _sig_match(k["signature"], signature):
                if k["id"] not in self.known_hits:
                    self.known_hits[k["id"]] = k["what"]
                    print(f"KNOWN-FINDING: property={self.pid} {k['what']} [{k['id']}]", flush=True)
                return False
        h = hashlib.sha1(json.dumps(_jsonable(signature), sort_keys=True).encode()).hexdigest()[:12]
        d = os.path.join(OUT_ROOT, "replays", self.pid)
        os.makedirs(d, exist_ok=True)
        path = os.path.join(d, f"{h}.json")
        if not any(v[2] == path for v in self.violations):
            with open(path, "w") as f:
                json.dump({"property": self.pid, "signature": _jsonable(signature), "what": what,
                           "replay": _jsonable(replay), "seed": self.seed, "tier": self.tier}, f, indent=1)
            print(f"VIOLATION property={self.pid} replay={path}", flush=True)
            print(f"  what: {what}", flush=True)
            self.violations.append((signature, what, path))
        return True

    # ---- evidence ----------------------------------------------------
    def write_evidence(self):
        cov = {
            "states": self.states,
            "transitions": self.transitions,
            "traces_validated_against_impl": self.traces,
            "samples": self.samples or ["(no sample recorded)"],
            "evaluations": max(self.evaluations, 1),
            "distinct_nontrivial": len(self.distinct),
            "rule": self.rule,
            "tlc_runs": self.tlc_runs,
            "known_findings_observed": sorted(self.known_hits),
        }
        if self.exhaustive is not None:
            cov["exhaustive"] = bool(self.exhaustive)
        cov.update(_jsonable(self.extra))
        if self.level != "model_checking":
            cov.setdefault("explanation", self.rule)
        ev = {
            "property_id": self.pid, "tier": self.tier, "seed": self.seed, "level": self.level,
            "coverage": cov, "assumptions": self.assumptions, "wall_s": round(time.time() - self.t0, 2),
            "violations": len(self.violations),
        }
        d = os.path.join(OUT_ROOT, "evidence")
        os.makedirs(d, exist_ok=True)
        with open(os.path.join(d, f"{self.pid}.json"), "w") as f:
            json.dump(ev, f, indent=1)

    def cleanup(self):
        shutil.rmtree(self.tmp, ignore_errors=True)


def _sig_match(pattern: dict, sig: dict) -> bool:
    """Every key of the finding's signature must be present and equal in the observed signature."""
    for k, v in pattern.items():
        if k not in sig:
            return False
        sv = sig[k]
        if isinstance(v, list) and not isinstance(sv, list):
            if sv not in v:
                return False
        elif _jsonable(sv) != v:
            return False
    return True
