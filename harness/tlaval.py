"""Parser for TLA+ values as printed by TLC (states in simulation files, PrintT output).

int -> int, "s" -> str, TRUE/FALSE -> bool, {..} -> frozenset, <<..>> -> tuple,
[a |-> v, ..] -> dict (str keys), (k :> v @@ ..) -> dict (parsed keys), identifiers -> ModelValue(str).
"""
from __future__ import annotations

import re


class ModelValue(str):
    pass


class _P:
    def __init__(self, s: str):
        self.s = s
        self.i = 0

    def ws(self):
        s = self.s
        n = len(s)
        while self.i < n and s[self.i] in " \t\r\n":
            self.i += 1

    def peek(self, k=1):
        return self.s[self.i:self.i + k]

    def expect(self, tok):
        self.ws()
        if not self.s.startswith(tok, self.i):
            raise ValueError(f"expected {tok!r} at {self.i}: {self.s[self.i:self.i+40]!r}")
        self.i += len(tok)

    def value(self):
        self.ws()
        s = self.s
        c = s[self.i]
        if c == '"':
            j = self.i + 1
            out = []
            while s[j] != '"':
                if s[j] == "\\":
                    j += 1
                    out.append({"n": "\n", "t": "\t"}.get(s[j], s[j]))
                else:
                    out.append(s[j])
                j += 1
            self.i = j + 1
            return "".join(out)
        if c == "<" and self.peek(2) == "<<":
            self.i += 2
            items = self.items(">>")
            return tuple(items)
        if c == "{":
            self.i += 1
            items = self.items("}")
            return frozenset(_freeze(x) for x in items)
        if c == "[":
            self.i += 1
            self.ws()
            d = {}
            if self.peek() == "]":
                self.i += 1
                return d
            while True:
                self.ws()
                m = re.compile(r"[A-Za-z_0-9]+").match(s, self.i)
                key = m.group(0)
                self.i = m.end()
                self.expect("|->")
                d[key] = self.value()
                self.ws()
                if self.peek() == ",":
                    self.i += 1
                    continue
                self.expect("]")
                return d
        if c == "(":
            self.i += 1
            d = {}
            while True:
                k = self.value()
                self.expect(":>")
                v = self.value()
                d[_freeze(k)] = v
                self.ws()
                if self.peek(2) == "@@":
                    self.i += 2
                    continue
                self.expect(")")
                return d
        m = re.compile(r"-?\d+").match(s, self.i)
        if m:
            self.i = m.end()
            return int(m.group(0))
        m = re.compile(r"[A-Za-z_][A-Za-z_0-9]*").match(s, self.i)
        if m:
            self.i = m.end()
            w = m.group(0)
            if w == "TRUE":
                return True
            if w == "FALSE":
                return False
            return ModelValue(w)
        raise ValueError(f"cannot parse at {self.i}: {s[self.i:self.i+40]!r}")

    def items(self, close):
        out = []
        self.ws()
        if self.s.startswith(close, self.i):
            self.i += len(close)
            return out
        while True:
            out.append(self.value())
            self.ws()
            if self.peek() == ",":
                self.i += 1
                continue
            self.expect(close)
            return out


def _freeze(x):
    if isinstance(x, dict):
        return tuple(sorted(((_freeze(k), _freeze(v)) for k, v in x.items()), key=repr))
    if isinstance(x, (list, tuple)):
        return tuple(_freeze(y) for y in x)
    if isinstance(x, (set, frozenset)):
        return frozenset(_freeze(y) for y in x)
    return x


def parse(s: str):
    p = _P(s)
    v = p.value()
    p.ws()
    if p.i != len(p.s):
        raise ValueError(f"trailing text: {p.s[p.i:p.i+40]!r}")
    return v


_STATE_HDR = re.compile(r"^STATE_(\d+) ==\s*$")
_ACT = re.compile(r"^\\\* <(\w+)")


def parse_sim_trace(text: str):
    """Parse a file written by `tlc -simulate file=...`: returns list of (action, {var: value})."""
    states = []
    action = "Init"
    cur = None
    buf = []
    for line in text.splitlines():
        m = _ACT.match(line)
        if m:
            action = m.group(1)
            continue
        if _STATE_HDR.match(line):
            if cur is not None:
                states.append((cur, _parse_state("\n".join(buf))))
            cur = action
            buf = []
            continue
        if line.startswith("====") or line.startswith("----") or line.startswith("EXTENDS") or line.startswith("\\*"):
            continue
        if cur is not None:
            buf.append(line)
    if cur is not None and buf:
        states.append((cur, _parse_state("\n".join(buf))))
    return states


def _parse_state(body: str):
    out = {}
    parts = re.split(r"(?m)^/\\ ", "\n" + body.strip())
    for part in parts:
        part = part.strip()
        if not part:
            continue
        name, _, val = part.partition("=")
        out[name.strip()] = parse(val.strip())
    return out
