"""Generic float64 evaluator for the symbolic terms built by the TLA+ specifications (DESIGN 2.4).

A term is a nested tuple/list: ("num", p, q) | ("var", name) | ("add", a, b) | ("sub", a, b) | ("mul", a, b)
| ("div", a, b) | ("neg", a) | ("exp", a) | ("log", a) | ("pow", a, b) | ("sqrt", a) | ("sigmoid", a)
| ("sum", [terms]) | ("max", a, b) | ("min", a, b) | ("sq", a) | ("ite", c, a, b) | ("lt", a, b) | ("le", a, b).
It knows nothing about leaspy.
"""
import math


def ev(t, env):
    op = t[0]
    if op == "num":
        return t[1] / t[2]
    if op == "var":
        return float(env[t[1]])
    if op == "add":
        return ev(t[1], env) + ev(t[2], env)
    if op == "sub":
        return ev(t[1], env) - ev(t[2], env)
    if op == "mul":
        return ev(t[1], env) * ev(t[2], env)
    if op == "div":
        return ev(t[1], env) / ev(t[2], env)
    if op == "neg":
        return -ev(t[1], env)
    if op == "sq":
        x = ev(t[1], env)
        return x * x
    if op == "exp":
        x = ev(t[1], env)
        return math.exp(x) if x < 700 else math.inf
    if op == "log":
        return math.log(ev(t[1], env))
    if op == "pow":
        return ev(t[1], env) ** ev(t[2], env)
    if op == "sqrt":
        return math.sqrt(ev(t[1], env))
    if op == "sigmoid":
        x = ev(t[1], env)
        return 1.0 / (1.0 + math.exp(-x)) if x > -700 else 0.0
    if op == "sum":
        return math.fsum(ev(x, env) for x in t[1])
    if op == "max":
        return max(ev(t[1], env), ev(t[2], env))
    if op == "min":
        return min(ev(t[1], env), ev(t[2], env))
    if op == "lt":
        return ev(t[1], env) < ev(t[2], env)
    if op == "le":
        return ev(t[1], env) <= ev(t[2], env)
    if op == "ite":
        return ev(t[2], env) if ev(t[1], env) else ev(t[3], env)
    raise ValueError(f"unknown term atom {op!r}")
