"""Entry point: ./check <Cxx> --tier quick|thorough [--replay file]."""
from __future__ import annotations

import argparse
import importlib
import os
import sys
import traceback


def main(argv=None):
    ap = argparse.ArgumentParser()
    ap.add_argument("pid")
    ap.add_argument("--tier", default=os.environ.get("VERIF_TIER", "quick"), choices=["quick", "thorough"])
    ap.add_argument("--replay", default=None)
    a = ap.parse_args(argv)
    seed = int(os.environ.get("VERIF_SEED", "0") or 0)
    from .common import Ctx
    from .tlc import MachineryError
    ctx = Ctx(a.pid, a.tier, seed)
    rc = 0
    try:
        mod = importlib.import_module(f"harness.props.{a.pid}")
        if a.replay:
            mod.replay(ctx, a.replay)
        else:
            mod.run(ctx)
        ctx.write_evidence()
        rc = 1 if ctx.violations else 0
    except MachineryError as e:
        print(f"MACHINERY-FAILURE property={a.pid}: {e}", flush=True)
        # violations already reported stand (the machinery may fail *because* the code under test is broken)
        rc = 1 if ctx.violations else 2
        if ctx.violations:
            ctx.write_evidence()
    except Exception:
        traceback.print_exc()
        print(f"MACHINERY-FAILURE property={a.pid}: unexpected exception in harness", flush=True)
        rc = 1 if ctx.violations else 2
        if ctx.violations:
            ctx.write_evidence()
    finally:
        ctx.cleanup()
    print(f"[{a.pid}] tier={a.tier} seed={seed} violations={len(ctx.violations)} "
          f"known={sorted(ctx.known_hits)} exit={rc}", flush=True)
    return rc


if __name__ == "__main__":
    sys.exit(main())
