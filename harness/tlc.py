"""TLC runner and output parser."""
from __future__ import annotations

import os
import re
import shutil
import subprocess
import tempfile
import time
from dataclasses import dataclass, field

JAR = "/opt/veriftools/tla/tla2tools.jar:/opt/veriftools/tla/CommunityModules-deps.jar"
SPECS = os.path.join(os.path.dirname(os.path.dirname(os.path.abspath(__file__))), "specs")


class MachineryError(Exception):
    """The verification machinery itself failed (exit 2, never a VIOLATION)."""


@dataclass
class TlcResult:
    ok: bool
    generated: int = 0
    distinct: int = 0
    depth: int = 0
    violated: list = field(default_factory=list)   # names of violated invariants / properties
    error_text: str = ""
    out: str = ""
    wall: float = 0.0
    coverage: dict = field(default_factory=dict)   # action name -> (distinct, total)
    prints: list = field(default_factory=list)     # raw PrintT lines
    trace_text: str = ""                           # counter-example as printed


_RE_STATES = re.compile(r"(\d+) states generated, (\d+) distinct states found")
_RE_DEPTH = re.compile(r"The depth of the complete state graph search is (\d+)")
_RE_INV = re.compile(r"Error: Invariant (\w+) is violated")
_RE_PROP = re.compile(r"Error: Action property (\w+) is violated")
_RE_TEMP = re.compile(r"Error: Temporal properties were violated")
_RE_COV = re.compile(r"^<(\w+) line \d+, col \d+ to line \d+, col \d+ of module (\w+)>: (\d+):(\d+)", re.M)


def run(module: str, cfg: str, *, cwd: str | None = None, workers: int | str = 16, simulate: str | None = None,
        depth: int | None = None, seed: int | None = None, env: dict | None = None, coverage: bool = False,
        timeout: int = 3600, extra: tuple = (), deadlock: bool = True, java_opts: tuple = (),
        heap: str = "8g") -> TlcResult:
    """Run TLC on `module` (a .tla in cwd or in /verif/specs) with config `cfg`."""
    cwd = cwd or SPECS
    meta = tempfile.mkdtemp(prefix="tlcmeta_")
    cmd = ["java", "-XX:+UseParallelGC", f"-Xmx{heap}", f"-DTLA-Library={SPECS}", *java_opts, "-cp", JAR, "tlc2.TLC",
           "-workers", str(workers), "-metadir", meta, "-noGenerateSpecTE", "-config", cfg]
    if not deadlock:
        cmd.append("-deadlock")
    if coverage:
        cmd += ["-coverage", "1"]
    if simulate is not None:
        cmd += ["-simulate", simulate]
    if depth is not None:
        cmd += ["-depth", str(depth)]
    if seed is not None:
        cmd += ["-seed", str(seed)]
    cmd += list(extra)
    cmd.append(module)
    e = dict(os.environ)
    if env:
        e.update({k: str(v) for k, v in env.items()})
    t0 = time.time()
    try:
        p = subprocess.run(cmd, cwd=cwd, env=e, stdout=subprocess.PIPE, stderr=subprocess.STDOUT, text=True,
                           timeout=timeout)
        out = p.stdout
        rc = p.returncode
    except subprocess.TimeoutExpired as ex:
        out = (ex.stdout or b"").decode() if isinstance(ex.stdout, bytes) else (ex.stdout or "")
        rc = -9
    finally:
        shutil.rmtree(meta, ignore_errors=True)
    res = TlcResult(ok=False, out=out, wall=time.time() - t0)
    for m in _RE_STATES.finditer(out):
        res.generated, res.distinct = int(m.group(1)), int(m.group(2))
    m = _RE_DEPTH.search(out)
    if m:
        res.depth = int(m.group(1))
    res.violated = _RE_INV.findall(out) + _RE_PROP.findall(out)
    if _RE_TEMP.search(out):
        res.violated.append("TemporalProperty")
    if "Deadlock reached" in out:
        res.violated.append("Deadlock")
    for m in _RE_COV.finditer(out):
        res.coverage[m.group(1)] = (int(m.group(3)), int(m.group(4)))
    res.prints = [l for l in out.splitlines() if l.startswith("<<") or l.startswith('"') or l.startswith("[")]
    if rc == -9:
        res.error_text = "timeout"
    elif "Error:" in out and not res.violated:
        i = out.index("Error:")
        res.error_text = out[i:i + 3000]
    if res.violated:
        i = out.find("Error:")
        res.trace_text = out[i:i + 20000]
    finished = ("Model checking completed. No error has been found." in out) or (
        simulate is not None and rc == 0 and "Error:" not in out)
    res.ok = finished and not res.violated and not res.error_text
    return res


def require_ok(res: TlcResult, what: str):
    """TLC must have run to completion (violations are handled by the caller)."""
    if res.error_text:
        raise MachineryError(f"TLC failed on {what}: {res.error_text[:1500]}")


def sany(module_path: str):
    p = subprocess.run(["java", f"-DTLA-Library={SPECS}", "-cp", JAR, "tla2sany.SANY", module_path],
                       stdout=subprocess.PIPE, stderr=subprocess.STDOUT, text=True, cwd=os.path.dirname(module_path))
    return p.returncode == 0 and "error" not in p.stdout.lower().replace("semantic errors:\n\n", ""), p.stdout
