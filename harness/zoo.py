"""Small synthetic cohorts and one constructor per shipped model configuration (shared by all drivers)."""
from __future__ import annotations

import numpy as np
import pandas as pd

import leaspy.models  # noqa: F401
from leaspy.io.data import Data
from leaspy.models import (
    JointModel,
    LinearModel,
    LogisticModel,
    LogisticMultivariateMixtureModel,
    SharedSpeedLogisticModel,
)
from leaspy.models.obs_models import observation_model_factory


def cohort(n_ind=7, dim=2, seed=0, missing=0.0, events=False, binary=False, min_visits=2, max_visits=5,
           ids=None, n_events=1):
    """A logistic-like longitudinal table: ID, TIME, Y0..Y{dim-1} (+ EVENT_TIME, EVENT_BOOL)."""
    rng = np.random.RandomState(seed)
    rows = []
    for i in range(n_ind):
        tau = 70 + rng.randn() * 4
        xi = rng.randn() * 0.3
        t0 = 62 + rng.rand() * 12
        nv = rng.randint(min_visits, max_visits + 1)
        ts = np.sort(t0 + np.cumsum(0.5 + rng.rand(nv) * 1.5))
        ev_t = float(ts[-1] + rng.rand() * 3)
        ev_b = bool(rng.rand() < 0.6)
        for t in ts:
            ys = []
            for f in range(dim):
                y = 1 / (1 + np.exp(-(np.exp(xi) * (t - tau) - 2 * f) / 4)) + rng.randn() * 0.04
                y = float(np.clip(y, 0.02, 0.98))
                if binary:
                    y = float(rng.rand() < y)
                ys.append(y)
            row = {"ID": (ids[i] if ids else f"s{i:02d}"), "TIME": float(np.round(t, 3))}
            for f in range(dim):
                row[f"Y{f}"] = ys[f]
            if events:
                row["EVENT_TIME"] = ev_t
                row["EVENT_BOOL"] = ev_b
            rows.append(row)
    df = pd.DataFrame(rows)
    if events and n_events > 1:
        # competing risks: observed events get a kind 1..n_events (by individual, cycling), censored ones stay 0
        kinds = {i: 1 + (k % n_events) for k, i in enumerate(dict.fromkeys(df["ID"]))}
        df["EVENT_BOOL"] = [int(b) * kinds[i] for i, b in zip(df["ID"], df["EVENT_BOOL"])]
        obs = [i for i in kinds if int(df.loc[df["ID"] == i, "EVENT_BOOL"].iloc[0]) > 0]
        # every kind observed at least once, and at least one censored individual
        ids_all = list(kinds)
        for kk in range(1, n_events + 1):
            if not (df["EVENT_BOOL"] == kk).any():
                df.loc[df["ID"] == ids_all[(kk - 1) % len(ids_all)], "EVENT_BOOL"] = kk
        if (df["EVENT_BOOL"] > 0).all():
            df.loc[df["ID"] == ids_all[-1], "EVENT_BOOL"] = 0
        _ = obs
    elif events:
        df["EVENT_BOOL"] = df["EVENT_BOOL"].astype(bool)
    if events and n_events == 1 and n_ind >= 2 and df["EVENT_BOOL"].nunique() == 1:
        # the joint model requires at least one observed and one censored event: flip the last individual's flag
        last = df["ID"].iloc[-1]
        df.loc[df["ID"] == last, "EVENT_BOOL"] = not bool(df["EVENT_BOOL"].iloc[0])
    if missing > 0 and dim >= 1:
        mask = rng.rand(len(df), dim) < missing
        # never blank a whole individual
        for f in range(dim):
            col = f"Y{f}"
            vals = df[col].values.copy()
            vals[mask[:, f]] = np.nan
            df[col] = vals
        for _, idx in df.groupby("ID").groups.items():
            sub = df.loc[idx, [f"Y{f}" for f in range(dim)]]
            if sub.notna().values.sum() == 0:
                df.loc[idx[0], "Y0"] = 0.5
    return df


def to_data(df, events=False):
    if events:
        return Data.from_dataframe(df, data_type="joint")
    return Data.from_dataframe(df)


# name -> (constructor kwargs, data kwargs)
CONFIGS = {
    "logistic_diag_src1": (lambda: LogisticModel("logistic", dimension=2, source_dimension=1,
                                                  obs_models=observation_model_factory("gaussian-diagonal", dimension=2)),
                           dict(dim=2)),
    "logistic_scalar_src1": (lambda: LogisticModel("logistic", dimension=2, source_dimension=1,
                                                    obs_models=observation_model_factory("gaussian-scalar")),
                             dict(dim=2)),
    "logistic_diag_nosrc": (lambda: LogisticModel("logistic", dimension=2, source_dimension=0,
                                                   obs_models=observation_model_factory("gaussian-diagonal", dimension=2)),
                            dict(dim=2)),
    "logistic_univariate": (lambda: LogisticModel("logistic", dimension=1, source_dimension=0), dict(dim=1)),
    "logistic_binary": (lambda: LogisticModel("logistic", dimension=2, source_dimension=1,
                                               obs_models=observation_model_factory("bernoulli")),
                        dict(dim=2, binary=True)),
    "linear_diag_src1": (lambda: LinearModel("linear", dimension=2, source_dimension=1,
                                              obs_models=observation_model_factory("gaussian-diagonal", dimension=2)),
                         dict(dim=2)),
    "linear_scalar_src1": (lambda: LinearModel("linear", dimension=2, source_dimension=1,
                                                obs_models=observation_model_factory("gaussian-scalar")),
                           dict(dim=2)),
    "shared_speed_src1": (lambda: SharedSpeedLogisticModel("shared_speed_logistic", dimension=3, source_dimension=1,
                                                            obs_models=observation_model_factory("gaussian-scalar")),
                          dict(dim=3)),
    "joint_src1": (lambda: JointModel("joint", dimension=2, source_dimension=1), dict(dim=2, events=True)),
    "joint_nosrc": (lambda: JointModel("joint", dimension=2, source_dimension=0,
                                       obs_models=(observation_model_factory("gaussian-scalar"),)),
                    dict(dim=2, events=True)),
    "joint_univariate": (lambda: JointModel("joint", dimension=1), dict(dim=1, events=True)),
    "mixture_2": (lambda: LogisticMultivariateMixtureModel("mixture_logistic", dimension=2, source_dimension=1,
                                                            n_clusters=2, obs_models="gaussian-diagonal"),
                  dict(dim=2)),
}

QUICK = ["logistic_diag_src1", "linear_scalar_src1", "joint_src1"]
SAMPLER_KINDS = ["Gibbs", "FastGibbs", "Metropolis-Hastings"]


# configurations used by single checks only (not iterated over by the thorough tiers that walk CONFIGS)
EXTRA_CONFIGS = {
    "joint_src1_ev2": (lambda: JointModel("joint", dimension=2, source_dimension=1, nb_events=2), dict(dim=2, events=True, n_events=2)),
    "joint_nosrc_ev2": (lambda: JointModel("joint", dimension=2, source_dimension=0, nb_events=2,
                                           obs_models=(observation_model_factory("gaussian-scalar"),)), dict(dim=2, events=True, n_events=2)),
}


def make(name, n_ind=7, seed=0, missing=0.0, **kw):
    ctor, dkw = CONFIGS[name] if name in CONFIGS else EXTRA_CONFIGS[name]
    dkw = dict(dkw)
    dkw.update(kw)
    df = cohort(n_ind=n_ind, seed=seed, missing=missing, **dkw)
    data = to_data(df, events=dkw.get("events", False))
    return ctor(), data, df
