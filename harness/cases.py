"""Case tables: TLC enumerates the cases of a specification (initial states), the driver runs each on the real code,
and TLC compares every recorded outcome with the specification's expected outcome."""
from __future__ import annotations

import json
import os
import re

from . import tlaval, tlc

_STATE = re.compile(r"^State \d+:\s*$", re.M)


def parse_dump(text):
    out = []
    for chunk in _STATE.split(text)[1:]:
        body = chunk.strip()
        if not body:
            continue
        if not body.startswith("/\\"):
            body = "/\\ " + body
        out.append(tlaval._parse_state(body))
    return out


def enumerate_cases(module, cfg, outdir, tag, *, cwd=None, invariants_checked=True, timeout=3000):
    """Run TLC (checking the design invariants of cfg) with -dump, return (TlcResult, list of case dicts)."""
    os.makedirs(outdir, exist_ok=True)
    dump = os.path.join(outdir, f"{tag}_cases")
    res = tlc.run(module, cfg, cwd=cwd, workers=16, extra=("-dump", dump), timeout=timeout)
    tlc.require_ok(res, f"{module}/{cfg}")
    with open(dump + ".dump") as f:
        cases = parse_dump(f.read())
    os.remove(dump + ".dump")
    return res, cases


def validate_records(trace_module, cfg_text, records, outdir, tag, *, env=None, timeout=3000, cwd=None):
    """records -> ndjson; TLC (one initial state per record, parallel) checks the invariants of cfg_text.
    Returns (ok, index of a failing record or None, TlcResult)."""
    os.makedirs(outdir, exist_ok=True)
    path = os.path.join(outdir, f"{tag}.ndjson")
    with open(path, "w") as f:
        for r in records:
            f.write(json.dumps(r) + "\n")
    cfg = os.path.join(outdir, f"{tag}.cfg")
    with open(cfg, "w") as f:
        f.write(cfg_text)
    e = {"TRACE_FILE": path}
    e.update(env or {})
    res = tlc.run(trace_module, cfg, workers=16, env=e, timeout=timeout, cwd=cwd)
    tlc.require_ok(res, f"{trace_module} {tag}")
    idx = None
    if res.violated:
        m = re.search(r"/\\ k = (\d+)", res.out) or re.search(r"\bk = (\d+)", res.out)
        idx = int(m.group(1)) - 1 if m else None
    return not res.violated, idx, res
