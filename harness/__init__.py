"""Model-based verification harness for aramis-lab/leaspy (see /verif/DESIGN.md)."""
