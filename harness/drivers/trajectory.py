"""Driver for specs/Trajectory.tla: estimate() against the closed forms and the layout machine; gauge / orthogonality scenarios."""
from __future__ import annotations

import math
import warnings

import numpy as np
import pandas as pd
import torch

import leaspy.models  # noqa: F401
from leaspy.io.data.dataset import Dataset
from leaspy.io.outputs import IndividualParameters

from .. import zoo
from ..terms import ev

KIND_OF = {"logistic_diag_src1": "logistic", "logistic_scalar_src1": "logistic", "logistic_diag_nosrc": "logistic",
           "logistic_univariate": "logistic", "linear_diag_src1": "linear", "linear_scalar_src1": "linear",
           "shared_speed_src1": "shared"}


def totuple(t):
    return tuple(totuple(x) for x in t) if isinstance(t, (tuple, list)) else (str(t) if not isinstance(t, (int, bool)) else t)


class ModelUnderTest:
    """One model object per configuration; parameters are replaced in place (load_parameters) between requests."""

    def __init__(self, config, seed):
        self.config = config
        self.kind = KIND_OF[config]
        with warnings.catch_warnings():
            warnings.simplefilter("ignore")
            self.model, data, _ = zoo.make(config, n_ind=6, seed=seed % 5)
            self.model.fit(data, "mcmc_saem", n_iter=5, seed=seed, progress_bar=False)
        self.base = {k: torch.as_tensor(v).clone() for k, v in self.model.parameters.items()}

    def new_point(self, rnd):
        p = {}
        for k, v in self.base.items():
            v = v.clone().float()
            if k in ("log_g_mean", "log_v0_mean", "deltas_mean", "betas_mean"):
                v = v + torch.tensor(np.array([rnd.uniform(-0.6, 0.6) for _ in range(v.numel())]).reshape(v.shape), dtype=torch.float32)
            elif k == "g_mean":
                v = v + torch.tensor(np.array([rnd.uniform(-0.2, 0.2) for _ in range(v.numel())]).reshape(v.shape), dtype=torch.float32)
            elif k == "tau_mean":
                v = v + rnd.uniform(-5, 5)
            p[k] = v
        with warnings.catch_warnings():
            warnings.simplefilter("ignore")
            self.model.load_parameters(p)
        st = self.model.state
        self.F = self.model.dimension
        self.S = int(getattr(self.model, "source_dimension", 0) or 0)
        g = st["g"].reshape(-1).double()
        self.g = g
        self.v0 = st["v0"].reshape(-1).double() if "v0" in st.dag else None
        self.mm = st["mixing_matrix"].double() if self.S else None
        self.delta = st["deltas_padded"].reshape(-1).double() if "deltas_padded" in st.dag else None

    def env(self, f, t, tau, xi, sources):
        w = float((torch.tensor(sources, dtype=torch.double) @ self.mm)[f]) if self.S else 0.0
        e = {"t": t, "tau": tau, "xi": xi, "w": w}
        if self.kind == "shared":
            e.update(g=float(self.g[0]), delta=float(self.delta[f]))
        else:
            e.update(g=float(self.g[f]), v0=float(self.v0[f]))
        return e


def run_estimate_case(mut: ModelUnderTest, case, rnd):
    term = totuple(case["term"])
    req = [(str(a), str(b)) for a, b in case["req"]]
    form = str(case["form"])
    rec = {"type": "estimate", "kind": mut.kind, "form": form, "req": [list(x) for x in req], "xis": [0, 1], "config": mut.config}
    flags = dict(shape_ok=False, values_match=False, in_unit_interval=False, monotone=False, reference_value=False, far_finite=False)
    rec.update(flags, rows=[], status="ok")
    try:
        mut.new_point(rnd)
        ids = sorted({i for i, _ in req})
        ips = IndividualParameters()
        ind = {}
        for i in ids:
            d = {"tau": rnd.uniform(60, 80), "xi": rnd.uniform(-1.0, 1.0)}
            if mut.S:
                d["sources"] = [rnd.uniform(-1.5, 1.5) for _ in range(mut.S)]
            ind[i] = d
            ips.add_individual_parameters(i, d)
        # ages: labels -> numbers (per individual); sometimes exactly 0, sometimes exactly the reference time
        age = {}
        for i in ids:
            pool = [rnd.uniform(40, 100) for _ in range(3)]
            r = rnd.random()
            if r < 0.25:
                pool[0] = 0.0
            elif r < 0.5:
                pool[1] = float(np.float32(ind[i]["tau"]))
                ind[i]["tau"] = pool[1]
            for lbl, v in zip(("t1", "t2", "t3"), pool):
                age[(i, lbl)] = v
        ips = IndividualParameters()
        for i in ids:
            ips.add_individual_parameters(i, ind[i])
        with warnings.catch_warnings():
            warnings.simplefilter("ignore")
            if form == "dict":
                tp = {}
                for i, lbl in req:
                    tp.setdefault(i, []).append(age[(i, lbl)])
                out = mut.model.estimate(tp, ips)
                rows = []
                got = {}
                for i, arr in out.items():
                    want = [lbl for j, lbl in req if j == i]
                    rows.append({"id": i, "ages": want if len(arr) == len(want) else [f"?{len(arr)}"]})
                    got[i] = np.asarray(arr)
                rec["rows"] = rows
                pairs = [(i, lbl, got[i][k]) for i in got for k, lbl in enumerate([l for j, l in req if j == i]) if k < len(got[i])]
                shape_ok = all(np.asarray(a).shape == (len([1 for j, _ in req if j == i]), mut.F) for i, a in out.items())
            else:
                ix = pd.MultiIndex.from_tuples([(i, age[(i, lbl)]) for i, lbl in req], names=["ID", "TIME"])
                out = mut.model.estimate(ix, ips)
                back = {}
                for (i, lbl), v in age.items():
                    back[(i, v)] = lbl
                rec["rows"] = [[i, back.get((i, t), f"?{t}")] for i, t in out.index]
                pairs = [(i, back.get((i, t), "?"), out.values[k]) for k, (i, t) in enumerate(out.index)]
                shape_ok = out.shape[1] == mut.F
        rec["shape_ok"] = bool(shape_ok)
        ok = unit = True
        for i, lbl, vals in pairs:
            if lbl.startswith("?"):
                ok = False
                continue
            for f in range(mut.F):
                e = mut.env(f, age[(i, lbl)], ind[i]["tau"], ind[i]["xi"], ind[i].get("sources", []))
                ref = ev(term, e)
                v = float(vals[f])
                if not (abs(v - ref) <= 2e-5 + 2e-4 * abs(ref)):
                    ok = False
                if mut.kind != "linear" and not (0.0 <= v <= 1.0):
                    unit = False
        rec["values_match"], rec["in_unit_interval"] = bool(ok), bool(unit)
        # relational facts on a dedicated request: sorted ages incl. a repeat, the reference time, far extrapolation
        i0 = ids[0]
        tau0 = float(np.float32(ind[i0]["tau"]))
        ips0 = IndividualParameters()
        d0 = dict(ind[i0], tau=tau0)
        if mut.S:
            d0["sources"] = [0.0] * mut.S
        ips0.add_individual_parameters(i0, d0)
        grid = sorted([rnd.uniform(30, 110) for _ in range(6)] + [tau0, tau0])
        with warnings.catch_warnings():
            warnings.simplefilter("ignore")
            est = np.asarray(mut.model.estimate({i0: grid + [tau0 - 400.0, tau0 + 400.0]}, ips0)[i0], dtype=float)
        body = est[: len(grid)]
        positive_speed = mut.kind != "linear" or bool((mut.v0 > 0).all())   # (v0 = exp(log_v0) > 0 always)
        rec["monotone"] = bool(np.all(np.diff(body, axis=0) >= 0)) if positive_speed else True
        k0 = grid.index(tau0)
        if mut.kind == "logistic":
            rec["reference_value"] = bool(np.allclose(body[k0], (1.0 / (1.0 + mut.g)).numpy(), rtol=0, atol=2e-6)
                                          and np.array_equal(body[k0], body[k0 + 1]))
        else:
            rec["reference_value"] = bool(np.array_equal(body[k0], body[k0 + 1]))
        rec["far_finite"] = bool(np.isfinite(est).all())
    except Exception as e:  # noqa: BLE001
        rec["status"] = f"{type(e).__name__}: {str(e)[:160]}"
    return rec


# ----------------------------------------------------------------------------------------------
def run_gauge_case(config, xis_scaled, rnd, extreme=None):
    """Re-centring on a real state: trajectories, attachments, event likelihood unchanged; zero mean; orthogonality."""
    rec = {"type": "gauge", "kind": "logistic", "form": "dict", "req": [["s1", "t1"]], "xis": list(xis_scaled), "config": config,
           "extreme": extreme or "-"}
    flags = dict(traj_same=False, attach_same=False, event_same=False, zero_mean=False, orthogonal=False)
    rec.update(flags, status="ok")
    try:
        with warnings.catch_warnings():
            warnings.simplefilter("ignore")
            xis_scaled = (list(xis_scaled) * 3)[:6]        # cohorts of 6 (the joint model needs censored and observed events)
            n = len(xis_scaled)
            model, data, _ = zoo.make(config, n_ind=n, seed=rnd.choice([0, 1, 3]))
            ds = Dataset(data)
            model.initialize(ds)
            st = model.state.clone(disable_auto_fork=True)
            model.put_data_variables(st, ds)
            st.put_individual_latent_variables("samples", n_individuals=n)
            xi = torch.tensor([[0.35 * x + rnd.uniform(-0.05, 0.05)] for x in xis_scaled], dtype=st["xi"].dtype)
            if extreme == "xi":
                xi[0, 0] = 4.8                          # one extreme progressor
            st["xi"] = xi
            # seeded population values
            for name in ("log_v0", "log_g", "g", "betas", "deltas"):
                if name in st.dag and st.dag[name].is_settable and st._values[name] is not None:
                    v = st[name]
                    st[name] = v + torch.tensor(np.array([rnd.uniform(-0.4, 0.4) for _ in range(v.numel())]).reshape(v.shape), dtype=v.dtype)
            if extreme == "nu" and "n_log_nu" in st.dag:
                st["n_log_nu"] = torch.full_like(st["n_log_nu"], -7.2)
            if "event" in st.dag:
                tau = st["tau"].clone()
                tau = torch.minimum(tau, torch.as_tensor(ds.event_time[:, :1] - 0.5, dtype=tau.dtype))   # events after the reference time
                st["tau"] = tau

            def snap():
                m = st["model"]
                out = {"traj": (m.weighted_value if hasattr(m, "weighted_value") else m).clone().double()}
                for key in ("nll_attach_ind", "nll_attach_y_ind"):
                    if key in st.dag:
                        out["attach"] = st[key].clone().double()
                        break
                out["event"] = st["nll_attach_event_ind"].clone().double() if "nll_attach_event_ind" in st.dag else torch.zeros(1, dtype=torch.double)
                # first-order effect on the Gaussian attachment of a trajectory deviation within the accepted tolerance:
                # sum_j |y - m| / sigma^2 * 1e-5 (1 + |m|)  per individual (zero for other observation models)
                out["slack"] = torch.zeros_like(out["attach"]) if "attach" in out else torch.zeros(1, dtype=torch.double)
                try:
                    y = st["y"]
                    if "noise_std" in st.dag and hasattr(y, "weight") and "attach" in out:
                        mv = (m.value if hasattr(m, "value") else m).double()
                        sig = st["noise_std"].double().reshape(-1)
                        sig = sig if sig.numel() == mv.shape[-1] else sig.expand(mv.shape[-1])
                        r = (y.value.double() - mv).abs() * (y.weight != 0)
                        r = torch.nan_to_num(r, nan=0.0, posinf=0.0, neginf=0.0)
                        out["slack"] = (r / sig ** 2 * 1e-5 * (1 + mv.abs())).sum(dim=(1, 2)).reshape(out["attach"].shape)
                except Exception:  # noqa: BLE001
                    pass
                return out
            if extreme == "reverted":
                # a rejected proposal on the velocities (derived values evaluated under the proposal, then reverted)
                from leaspy.variables.state import StateForkType
                st.auto_fork_type = StateForkType.REF
                var = "log_v0" if "log_v0" in st.dag else None
                if var:
                    for key in ("mixing_matrix", "space_shifts", "model"):
                        if key in st.dag:
                            st._values[key] = None if key != "model" else st._values[key]
                    st.put(var, torch.tensor(0.7, dtype=st[var].dtype), indices=(0,), accumulate=True)
                    for key in ("mixing_matrix", "space_shifts", "model", "nll_attach_ind"):
                        if key in st.dag:
                            st[key]
                    st.revert()
                st.auto_fork_type = None
            before = snap()
            model.compute_sufficient_statistics(st)       # re-centres xi (and compensates) in place
            after = snap()

            def same(a, b):
                return bool(((a - b).abs() <= 1e-5 * (1 + a.abs())).all())
            rec["traj_same"] = same(before["traj"], after["traj"])
            # the attachment may move by what the accepted trajectory deviation allows (float32 conditioning of extreme states)
            rec["attach_same"] = bool(((before["attach"] - after["attach"]).abs() <= 1e-5 * (1 + before["attach"].abs()) + 4 * before["slack"]).all())
            rec["event_same"] = same(before["event"], after["event"])
            rec["zero_mean"] = bool(abs(float(st["xi"].double().mean())) <= 1e-6)
            rec["gaps"] = [float((before[k] - after[k]).abs().max()) for k in ("traj", "attach", "event")]
            if "mixing_matrix" in st.dag:
                A = st["mixing_matrix"].double()                   # (Ns, F)
                msq = st["metric_sqr"].double().reshape(-1) if "metric_sqr" in st.dag else torch.ones(A.shape[1], dtype=torch.double)
                v0 = st["v0"].double().reshape(-1) if "v0" in st.dag else None
                if v0 is not None and v0.numel() == A.shape[1]:
                    gv = msq * v0
                    dots = (A * gv).sum(dim=1)
                    rec["orthogonal"] = bool((dots.abs() <= 1e-5 * (A.norm(dim=1) * gv.norm() + 1e-12)).all())
                else:
                    rec["orthogonal"] = True
            else:
                rec["orthogonal"] = True
    except Exception as e:  # noqa: BLE001
        rec["status"] = f"{type(e).__name__}: {str(e)[:160]}"
    return rec
