"""Driver for specs/Trajectory.tla: estimate() against the closed forms and the layout machine; gauge / orthogonality scenarios."""
from __future__ import annotations

import math
import warnings

import numpy as np
import pandas as pd
import torch

import leaspy.models  # noqa: F401
from leaspy.io.data.dataset import Dataset
from leaspy.io.outputs import IndividualParameters

from .. import zoo
from ..terms import ev

KIND_OF = {"logistic_diag_src1": "logistic", "logistic_scalar_src1": "logistic", "logistic_diag_nosrc": "logistic",
           "logistic_univariate": "logistic", "linear_diag_src1": "linear", "linear_scalar_src1": "linear",
           "shared_speed_src1": "shared",
           # the joint model: its longitudinal part is the logistic curve; estimates carry E extra columns (event predictions, not
           # part of this property); only the dictionary layout is requested (the table layout cannot be built for this model)
           "joint_src1": "logistic"}


def totuple(t):
    return tuple(totuple(x) for x in t) if isinstance(t, (tuple, list)) else (str(t) if not isinstance(t, (int, bool)) else t)


class ModelUnderTest:
    """One model object per configuration; parameters are replaced in place (load_parameters) between requests."""

    def __init__(self, config, seed):
        self.config = config
        self.kind = KIND_OF[config]
        with warnings.catch_warnings():
            warnings.simplefilter("ignore")
            self.model, data, _ = zoo.make(config, n_ind=6, seed=seed % 5)
            self.model.fit(data, "mcmc_saem", n_iter=5, seed=seed, progress_bar=False)
        self.base = {k: torch.as_tensor(v).clone() for k, v in self.model.parameters.items()}

    def new_point(self, rnd):
        p = {}
        for k, v in self.base.items():
            v = v.clone().float()
            if k in ("log_g_mean", "log_v0_mean", "deltas_mean", "betas_mean"):
                v = v + torch.tensor(np.array([rnd.uniform(-0.6, 0.6) for _ in range(v.numel())]).reshape(v.shape), dtype=torch.float32)
            elif k == "g_mean":
                v = v + torch.tensor(np.array([rnd.uniform(-0.2, 0.2) for _ in range(v.numel())]).reshape(v.shape), dtype=torch.float32)
            elif k == "tau_mean":
                v = v + rnd.uniform(-5, 5)
            p[k] = v
        with warnings.catch_warnings():
            warnings.simplefilter("ignore")
            self.model.load_parameters(p)
        st = self.model.state
        self.F = self.model.dimension
        self.E = int(getattr(self.model, "nb_events", 0) or 0) if self.config.startswith("joint") else 0
        self.S = int(getattr(self.model, "source_dimension", 0) or 0)
        g = st["g"].reshape(-1).double()
        self.g = g
        self.v0 = st["v0"].reshape(-1).double() if "v0" in st.dag else None
        self.mm = st["mixing_matrix"].double() if self.S else None
        self.delta = st["deltas_padded"].reshape(-1).double() if "deltas_padded" in st.dag else None

    def env(self, f, t, tau, xi, sources):
        w = float((torch.tensor(sources, dtype=torch.double) @ self.mm)[f]) if self.S else 0.0
        e = {"t": t, "tau": tau, "xi": xi, "w": w}
        if self.kind == "shared":
            e.update(g=float(self.g[0]), delta=float(self.delta[f]))
        else:
            e.update(g=float(self.g[f]), v0=float(self.v0[f]))
        return e


def run_estimate_case(mut: ModelUnderTest, case, rnd):
    term = totuple(case["term"])
    req = [(str(a), str(b)) for a, b in case["req"]]
    form = str(case["form"])
    rec = {"type": "estimate", "kind": mut.kind, "form": form, "req": [list(x) for x in req], "xis": [0, 1], "config": mut.config}
    flags = dict(shape_ok=False, values_match=False, in_unit_interval=False, monotone=False, reference_value=False, far_finite=False)
    rec.update(flags, rows=[], status="ok")
    try:
        mut.new_point(rnd)
        ids = sorted({i for i, _ in req})
        ips = IndividualParameters()
        ind = {}
        for i in ids:
            d = {"tau": rnd.uniform(60, 80), "xi": rnd.uniform(-1.0, 1.0)}
            if mut.S:
                d["sources"] = [rnd.uniform(-1.5, 1.5) for _ in range(mut.S)]
            ind[i] = d
            ips.add_individual_parameters(i, d)
        # ages: labels -> numbers (per individual); sometimes exactly 0, sometimes exactly the reference time
        age = {}
        for i in ids:
            pool = [rnd.uniform(40, 100) for _ in range(3)]
            r = rnd.random()
            if r < 0.25:
                pool[0] = 0.0
            elif r < 0.5:
                pool[1] = float(np.float32(ind[i]["tau"]))
                ind[i]["tau"] = pool[1]
            for lbl, v in zip(("t1", "t2", "t3"), pool):
                age[(i, lbl)] = v
        ips = IndividualParameters()
        for i in ids:
            ips.add_individual_parameters(i, ind[i])
        with warnings.catch_warnings():
            warnings.simplefilter("ignore")
            if form == "dict":
                tp = {}
                for i, lbl in req:
                    tp.setdefault(i, []).append(age[(i, lbl)])
                out = mut.model.estimate(tp, ips)
                rows = []
                got = {}
                for i, arr in out.items():
                    want = [lbl for j, lbl in req if j == i]
                    rows.append({"id": i, "ages": want if len(arr) == len(want) else [f"?{len(arr)}"]})
                    got[i] = np.asarray(arr)
                rec["rows"] = rows
                pairs = [(i, lbl, got[i][k]) for i in got for k, lbl in enumerate([l for j, l in req if j == i]) if k < len(got[i])]
                shape_ok = all(np.asarray(a).shape == (len([1 for j, _ in req if j == i]), mut.F + mut.E) for i, a in out.items())
            else:
                ix = pd.MultiIndex.from_tuples([(i, age[(i, lbl)]) for i, lbl in req], names=["ID", "TIME"])
                out = mut.model.estimate(ix, ips)
                back = {}
                for (i, lbl), v in age.items():
                    back[(i, v)] = lbl
                rec["rows"] = [[i, back.get((i, t), f"?{t}")] for i, t in out.index]
                pairs = [(i, back.get((i, t), "?"), out.values[k]) for k, (i, t) in enumerate(out.index)]
                shape_ok = out.shape[1] == mut.F
        rec["shape_ok"] = bool(shape_ok)
        ok = unit = True
        for i, lbl, vals in pairs:
            if lbl.startswith("?"):
                ok = False
                continue
            for f in range(mut.F):
                e = mut.env(f, age[(i, lbl)], ind[i]["tau"], ind[i]["xi"], ind[i].get("sources", []))
                ref = ev(term, e)
                v = float(vals[f])
                if not (abs(v - ref) <= 2e-5 + 2e-4 * abs(ref)):
                    ok = False
                if mut.kind != "linear" and not (0.0 <= v <= 1.0):
                    unit = False
        rec["values_match"], rec["in_unit_interval"] = bool(ok), bool(unit)
        # relational facts on a dedicated request: sorted ages incl. a repeat, the reference time, far extrapolation
        i0 = ids[0]
        tau0 = float(np.float32(ind[i0]["tau"]))
        ips0 = IndividualParameters()
        d0 = dict(ind[i0], tau=tau0)
        if mut.S:
            d0["sources"] = [0.0] * mut.S
        ips0.add_individual_parameters(i0, d0)
        grid = sorted([rnd.uniform(30, 110) for _ in range(6)] + [tau0, tau0])
        with warnings.catch_warnings():
            warnings.simplefilter("ignore")
            est = np.asarray(mut.model.estimate({i0: grid + [tau0 - 400.0, tau0 + 400.0]}, ips0)[i0], dtype=float)
        est = est[:, : mut.F]
        body = est[: len(grid)]
        positive_speed = mut.kind != "linear" or bool((mut.v0 > 0).all())   # (v0 = exp(log_v0) > 0 always)
        rec["monotone"] = bool(np.all(np.diff(body, axis=0) >= 0)) if positive_speed else True
        k0 = grid.index(tau0)
        if mut.kind == "logistic":
            rec["reference_value"] = bool(np.allclose(body[k0], (1.0 / (1.0 + mut.g)).numpy(), rtol=0, atol=2e-6)
                                          and np.array_equal(body[k0], body[k0 + 1]))
        else:
            rec["reference_value"] = bool(np.array_equal(body[k0], body[k0 + 1]))
        rec["far_finite"] = bool(np.isfinite(est).all())
    except Exception as e:  # noqa: BLE001
        rec["status"] = f"{type(e).__name__}: {str(e)[:160]}"
    return rec


# ----------------------------------------------------------------------------------------------
PRED_RTOL = 1e-4


def run_gauge_case(config, xis_scaled, rnd, extreme=None, recenter=True, family="logistic", metric_terms=None):
    """Re-centring on a real state: trajectories, attachments, event likelihood unchanged; zero mean; orthogonality."""
    rec = {"type": "gauge", "kind": family, "form": "dict", "req": [["s1", "t1"]], "xis": list(xis_scaled), "config": config,
           "extreme": extreme or "-"}
    flags = dict(traj_same=False, attach_same=False, event_same=False, zero_mean=False, orthogonal=False)
    rec.update(flags, status="ok")
    try:
        with warnings.catch_warnings():
            warnings.simplefilter("ignore")
            xis_scaled = (list(xis_scaled) * 3)[:6]        # cohorts of 6 (the joint model needs censored and observed events)
            n = len(xis_scaled)
            model, data, _ = zoo.make(config, n_ind=n, seed=rnd.choice([0, 1, 3]))
            ds = Dataset(data)
            model.initialize(ds)
            st = model.state.clone(disable_auto_fork=True)
            model.put_data_variables(st, ds)
            st.put_individual_latent_variables("samples", n_individuals=n)
            xi = torch.tensor([[0.35 * x + rnd.uniform(-0.05, 0.05)] for x in xis_scaled], dtype=st["xi"].dtype)
            if extreme == "xi":
                xi[0, 0] = 6.5                          # one extreme progressor (far beyond any clipping range of the others)
            st["xi"] = xi
            # seeded population values
            for name in ("log_v0", "log_g", "g", "betas", "deltas"):
                if name in st.dag and st.dag[name].is_settable and st._values[name] is not None:
                    v = st[name]
                    st[name] = v + torch.tensor(np.array([rnd.uniform(-0.4, 0.4) for _ in range(v.numel())]).reshape(v.shape), dtype=v.dtype)
            if extreme == "tiny_v0":
                # velocities at the lower end of what single precision separates from 0 (norms of 1e-7)
                for name in ("log_v0", "xi_mean"):
                    if name in st.dag and st.dag[name].is_settable and st._values[name] is not None and name != "xi_mean":
                        v = st[name]
                        st[name] = torch.full_like(v, -16.0) + torch.tensor(np.array([rnd.uniform(-0.3, 0.3) for _ in range(v.numel())]).reshape(v.shape), dtype=v.dtype)
            if extreme == "staggered":
                # features whose curves are far apart at the reference time (metric spread over several orders of magnitude)
                for name, amp in (("deltas", 6.0), ("log_g", 5.5)):
                    if name in st.dag and st.dag[name].is_settable and st._values[name] is not None:
                        v = st[name]
                        if v.numel() >= 2 or name == "deltas":
                            vals = [amp * (1 if k % 2 == 0 else -1) + rnd.uniform(-0.3, 0.3) for k in range(v.numel())]
                            st[name] = torch.tensor(np.array(vals).reshape(v.shape), dtype=v.dtype)
                            break
            if extreme == "nu" and "n_log_nu" in st.dag:
                st["n_log_nu"] = torch.full_like(st["n_log_nu"], -7.2)
            if "event" in st.dag:
                tau = st["tau"].clone()
                tau = torch.minimum(tau, torch.as_tensor(ds.event_time[:, :1] - 0.5, dtype=tau.dtype))   # events after the reference time
                st["tau"] = tau

            def snap():
                m = st["model"]
                out = {"traj": (m.weighted_value if hasattr(m, "weighted_value") else m).clone().double()}
                for key in ("nll_attach_ind", "nll_attach_y_ind"):
                    if key in st.dag:
                        out["attach"] = st[key].clone().double()
                        break
                out["event"] = st["nll_attach_event_ind"].clone().double() if "nll_attach_event_ind" in st.dag else torch.zeros(1, dtype=torch.double)
                # the two ingredients of the event part of a joint trajectory (corrected survival / cumulative incidences):
                # hazard and log-survival of the Weibull family on the reparametrized time, at every individual's event time
                out["pred"] = []
                if "nll_attach_event_ind" in st.dag:
                    ev_obs = next(o for o in model.obs_models if o.name == "event")
                    for fn in ("compute_hazard", "compute_log_survival"):
                        f = ev_obs.dist.get_func(fn, "event")
                        out["pred"].append(torch.as_tensor(f.call({p: st[p] for p in f.parameters})).clone().double())
                # first-order effect on the Gaussian attachment of a trajectory deviation within the accepted tolerance:
                # sum_j |y - m| / sigma^2 * 1e-5 (1 + |m|)  per individual (zero for other observation models)
                out["slack"] = torch.zeros_like(out["attach"]) if "attach" in out else torch.zeros(1, dtype=torch.double)
                try:
                    y = st["y"]
                    if "noise_std" in st.dag and hasattr(y, "weight") and "attach" in out:
                        mv = (m.value if hasattr(m, "value") else m).double()
                        sig = st["noise_std"].double().reshape(-1)
                        sig = sig if sig.numel() == mv.shape[-1] else sig.expand(mv.shape[-1])
                        r = (y.value.double() - mv).abs() * (y.weight != 0)
                        r = torch.nan_to_num(r, nan=0.0, posinf=0.0, neginf=0.0)
                        out["slack"] = (r / sig ** 2 * 1e-5 * (1 + mv.abs())).sum(dim=(1, 2)).reshape(out["attach"].shape)
                except Exception:  # noqa: BLE001
                    pass
                return out
            if extreme == "reverted":
                # a rejected proposal on the velocities (derived values evaluated under the proposal, then reverted)
                from leaspy.variables.state import StateForkType
                st.auto_fork_type = StateForkType.REF
                var = "log_v0" if "log_v0" in st.dag else None
                if var:
                    for key in ("mixing_matrix", "space_shifts", "model"):
                        if key in st.dag:
                            st._values[key] = None if key != "model" else st._values[key]
                    st.put(var, torch.tensor(0.7, dtype=st[var].dtype), indices=(0,), accumulate=True)
                    for key in ("mixing_matrix", "space_shifts", "model", "nll_attach_ind"):
                        if key in st.dag:
                            st[key]
                    st.revert()
                st.auto_fork_type = None
            before = snap()
            if recenter:
                model.compute_sufficient_statistics(st)       # re-centres xi (and compensates) in place
            after = snap()

            def same(a, b):
                return bool(((a - b).abs() <= 1e-5 * (1 + a.abs())).all())
            rec["traj_same"] = same(before["traj"], after["traj"])
            # the attachment may move by what the accepted trajectory deviation allows (float32 conditioning of extreme states)
            rec["attach_same"] = bool(((before["attach"] - after["attach"]).abs() <= 1e-5 * (1 + before["attach"].abs()) + 4 * before["slack"]).all())
            rec["event_same"] = same(before["event"], after["event"])

            def same_rel(a, b):
                return bool(torch.isfinite(a).all()) and bool(torch.isfinite(b).all()) and bool(((a - b).abs() <= PRED_RTOL * a.abs() + 1e-300).all())
            rec["pred_gap"] = max([float(((a - b).abs() / (a.abs() + 1e-300)).max()) for a, b in zip(before["pred"], after["pred"])] or [0.0])
            rec["event_same"] = rec["event_same"] and all(same_rel(a, b) for a, b in zip(before["pred"], after["pred"]))
            rec["zero_mean"] = bool(abs(float(st["xi"].double().mean())) <= 1e-6) if recenter else True
            rec["gaps"] = [float((before[k] - after[k]).abs().max()) for k in ("traj", "attach", "event")]
            if "mixing_matrix" in st.dag and "orthonormal_basis" in st.dag:
                A = st["mixing_matrix"].double()                   # (Ns, F)
                # direction of progression and metric: the two inputs of the model's orthonormal basis
                nf = A.shape[1]
                if metric_terms is not None:
                    # metric and direction from the specification's terms, evaluated per feature at the state's own g, v0, deltas
                    gs = st["g"].double().reshape(-1) if "g" in st.dag else torch.ones(nf, dtype=torch.double)
                    gs = gs if gs.numel() == nf else gs.expand(nf)
                    v0s = st["v0"].double().reshape(-1) if "v0" in st.dag else torch.ones(nf, dtype=torch.double)
                    v0s = v0s if v0s.numel() == nf else v0s.expand(nf)
                    dl = st["deltas_padded"].double().reshape(-1) if "deltas_padded" in st.dag else torch.zeros(nf, dtype=torch.double)
                    envs = [{"g": float(gs[f]), "v0": float(v0s[f]), "delta": float(dl[f])} for f in range(nf)]
                    msq = torch.tensor([ev(metric_terms[0], e) for e in envs], dtype=torch.double)
                    d = torch.tensor([ev(metric_terms[1], e) for e in envs], dtype=torch.double)
                else:
                    anc = sorted(st.dag.direct_ancestors["orthonormal_basis"])
                    mname = next((a for a in anc if "metric" in a), None)
                    dname = next((a for a in anc if a != mname), None)
                    msq = st[mname].double().reshape(-1) if mname else torch.ones(nf, dtype=torch.double)
                    d = st[dname].double().reshape(-1) if dname else None
                if d is not None and d.numel() == A.shape[1]:
                    msq = msq if msq.numel() == d.numel() else msq.expand(d.numel())
                    gd = msq * d
                    dots = (A * gd).sum(dim=1)
                    # cosine, in the metric, between every row and the direction of progression
                    na = ((A * msq * A).sum(dim=1)).clamp(min=0).sqrt()
                    nd = float((d * msq * d).sum().clamp(min=0).sqrt())
                    cos = dots.abs() / (na * nd + 1e-300)
                    rec["orthogonal"] = bool((cos <= 1e-4).all()) and bool(torch.isfinite(A).all())
                    rec["gaps"] = rec.get("gaps", []) + [float(cos.max())]
                else:
                    rec["orthogonal"] = True
            else:
                rec["orthogonal"] = True
    except Exception as e:  # noqa: BLE001
        rec["status"] = f"{type(e).__name__}: {str(e)[:160]}"
    return rec


def run_basis_case(n, metric, strip, rnd):
    """One seeded call of leaspy.utils.linalg.compute_orthonormal_basis (OrthoBasis.tla)."""
    from leaspy.utils.linalg import compute_orthonormal_basis
    rec = {"n": n, "metric": metric, "strip": strip, "status": "ok", "rows": 0, "cols": 0, "orthonormal": False, "orthogonal_to_Gd": False}
    try:
        d = torch.tensor([rnd.uniform(0.2, 3.0) * rnd.choice([1, 1, -1]) for _ in range(n)], dtype=torch.float32)
        if metric == "scalar":
            G = torch.tensor(rnd.uniform(0.3, 4.0))
            Gd = G.double() * d.double()
        elif metric == "vector":
            G = torch.tensor([rnd.uniform(0.1, 30.0) for _ in range(n)], dtype=torch.float32)
            Gd = G.double() * d.double()
        else:
            a = torch.tensor([[rnd.uniform(-1, 1) for _ in range(n)] for _ in range(n)], dtype=torch.float32)
            G = a @ a.T + n * torch.eye(n)                 # symmetric positive definite
            Gd = G.double() @ d.double()
        B = compute_orthonormal_basis(d, G, strip_col=strip).double()
        rec["rows"], rec["cols"] = int(B.shape[0]), int(B.shape[1])
        rec["orthonormal"] = bool(((B.T @ B - torch.eye(B.shape[1], dtype=torch.double)).abs() <= 1e-5).all())
        cos = (B.T @ Gd).abs() / (B.norm(dim=0) * Gd.norm() + 1e-300)
        rec["orthogonal_to_Gd"] = bool((cos <= 1e-5).all())
    except Exception as e:  # noqa: BLE001
        rec["status"] = f"{type(e).__name__}: {str(e)[:100]}"
    return rec
