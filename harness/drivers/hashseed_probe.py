"""Run in a fresh interpreter (python -m harness.drivers.hashseed_probe): seeded fit / personalize / simulate, digests as JSON.
The caller runs it under different PYTHONHASHSEED values: a seeded result must not depend on the interpreter's string hashing."""
import hashlib
import json
import sys
import warnings

import numpy as np
import pandas as pd

warnings.filterwarnings("ignore")
import leaspy.models  # noqa: E402,F401
from harness import zoo  # noqa: E402


def digest(a):
    return hashlib.sha256(np.ascontiguousarray(np.asarray(a, dtype=np.float64)).tobytes()).hexdigest()[:16]


def main():
    out = {}
    model, data, df = zoo.make("logistic_diag_src1", n_ind=6, seed=1)
    model.fit(data, "mcmc_saem", n_iter=8, seed=3, progress_bar=False)
    out["fit"] = digest(np.concatenate([np.asarray(v, dtype=float).reshape(-1) for _, v in sorted(model.parameters.items())]))
    ip = model.personalize(data, "mean_posterior", n_iter=5, seed=4, progress_bar=False).to_dataframe()
    out["personalize"] = digest(ip.sort_index().values)
    ip2 = model.personalize(data, "scipy_minimize", seed=4, progress_bar=False).to_dataframe()
    out["personalize_scipy"] = digest(ip2.sort_index().values)
    ip3 = model.personalize(data, "mode_posterior", n_iter=5, seed=4, progress_bar=False).to_dataframe()
    out["personalize_mode"] = digest(ip3.sort_index().values)
    visits = pd.DataFrame({"ID": ["pat-b", "pat-b", "zed", "abe", "abe", "abe", "k9"], "TIME": [70.0, 72.5, 66.0, 61.0, 63.0, 68.25, 75.0]})
    feats = list(model.features)
    res = model.simulate(algorithm="simulate", features=feats, visit_parameters={"visit_type": "dataframe", "df_visits": visits}, seed=5)
    sim = res.data.to_dataframe().sort_values(["ID", "TIME"])
    out["simulate"] = digest(sim[["TIME"] + feats].values)
    out["simulate_ids"] = hashlib.sha256("|".join(map(str, sim["ID"].tolist())).encode()).hexdigest()[:16]
    res2 = model.simulate(algorithm="simulate", features=feats, seed=6,
                          visit_parameters={"visit_type": "random", "patient_number": 5, "first_visit_mean": 0.0, "first_visit_std": 0.4,
                                            "time_follow_up_mean": 4.0, "time_follow_up_std": 0.5, "distance_visit_mean": 1.0,
                                            "distance_visit_std": 0.2, "min_spacing_between_visits": 0.1})
    sim2 = res2.data.to_dataframe().sort_values(["ID", "TIME"])
    out["simulate_random"] = digest(sim2[["TIME"] + feats].values)
    print("DIGESTS " + json.dumps(out))


if __name__ == "__main__":
    sys.exit(main())
