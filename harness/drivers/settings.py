"""Driver for specs/Settings.tla: replays TLC behaviours on real AlgorithmSettings objects (spec -> code)."""
from __future__ import annotations

import copy
import glob
import json
import os
import random
import warnings

import leaspy.models  # noqa: F401
from leaspy.algo import AlgorithmSettings, algorithm_factory
from leaspy.exceptions import LeaspyAlgoInputError

from .. import tlaval, tlc

NAMES = {"perso": "mode_posterior", "fit": "mcmc_saem"}
A_VAL = {"v7": 70, "v8": 80}
B_VAL = {"v7": 7, "v8": 8}
D_KEYS = {"x": "do_annealing", "y": "n_iter", "z": "my_nested_extra"}
D_VAL = {"x": {"v7": True, "v8": 0}, "y": {"v7": 27, "v8": 36}, "z": {"v7": 7, "v8": 8}}
_DEFAULTS = {}


def defaults(name):
    if name not in _DEFAULTS:
        with warnings.catch_warnings():
            warnings.simplefilter("ignore")
            _DEFAULTS[name] = copy.deepcopy(AlgorithmSettings(NAMES[name]).parameters)
    return _DEFAULTS[name]


def _inv(table, v, default):
    if v is default or (type(v) is type(default) and v == default and not isinstance(default, bool)):
        return "def"
    for k, x in table.items():
        if type(x) is type(v) and x == v:
            return k
    return f"other:{v!r}"


def project_params(name, p, *, strict=True, resolved_ok=False):
    dflt = defaults(name)
    out = {"a": _inv(A_VAL, p.get("n_iter"), dflt["n_iter"]), "b": _inv(B_VAL, p["my_extra"], object()) if "my_extra" in p else "absent"}
    ann = p.get("annealing")
    if not isinstance(ann, dict):
        out["d"] = f"other:{ann!r}"
    else:
        d = {}
        for k, real in D_KEYS.items():
            if real in ann:
                v = ann[real]
                if k == "x":
                    d[k] = "def" if v is False else ("v7" if v is True else ("v8" if type(v) is int and v == 0 else f"other:{v!r}"))
                elif k == "y":
                    d[k] = "def" if v is None else _inv(D_VAL["y"], v, None)
                    if d[k].startswith("other") and resolved_ok and isinstance(v, int):
                        d[k] = "resolved"
                else:
                    d[k] = _inv(D_VAL["z"], v, object())
        out["d"] = d
        if strict:
            rest = {k: v for k, v in ann.items() if k not in D_KEYS.values()}
            if rest != {k: v for k, v in dflt["annealing"].items() if k not in D_KEYS.values()}:
                out["d"] = f"corrupt:annealing {rest}"
    if strict:
        for k, v in dflt.items():
            if k not in ("n_iter", "annealing") and p.get(k, "<missing>") != v:
                out["a"] = f"corrupt:{k}={p.get(k)!r}"
        extra = set(p) - set(dflt) - {"my_extra"}
        if extra:
            out["a"] = f"corrupt:extra {sorted(extra)}"
    return out


def project(obj):
    if obj is None:
        return {"name": "none"}
    name = {v: k for k, v in NAMES.items()}.get(getattr(obj.name, "value", obj.name), f"other:{obj.name}")
    seed = "null" if obj.seed is None else str(obj.seed)
    return {"name": name, "seed": seed, "params": project_params(name, obj.parameters)}


def spec_obj(o):
    if o["name"] == "none":
        return {"name": "none"}
    p = o["params"]
    return {"name": o["name"], "seed": o["seed"], "params": {"a": p["a"], "b": p["b"], "d": dict(p["d"]) if not isinstance(p["d"], (tuple, list)) else {}}}


def kwargs_of(kw):
    out = {}
    if kw["a"] != "absent":
        out["n_iter"] = A_VAL[kw["a"]]
    if kw["b"] != "absent":
        out["my_extra"] = B_VAL[kw["b"]]
    d = kw["d"]
    if d["kind"] == "scalar":
        out["annealing"] = 5
    elif d["kind"] == "dict":
        val = d["val"] if isinstance(d["val"], dict) else {}
        out["annealing"] = {D_KEYS[k]: D_VAL[k][v] for k, v in val.items()}
    if kw["seed"] == "3":
        out["seed"] = 3
    elif kw["seed"] == "bad":
        out["seed"] = "abc"
    return out


def write_hand(path, name, kind):
    real = NAMES[name]
    js = {"no_name": {"parameters": {"n_iter": 80}},
          "unknown_key": {"name": real, "foo": 1},
          "loss_key": {"name": real, "loss": "MSE"},
          "partial": {"name": real, "parameters": {"n_iter": 80, "annealing": {"n_iter": 27}}},
          "nested_scalar": {"name": real, "parameters": {"annealing": 5}}}[kind]
    with open(path, "w") as f:
        json.dump(js, f)


def run_behaviour(states, workdir):
    objs = {}
    algo_params = None
    algo_name = None
    path = os.path.join(workdir, f"settings_{random.random()}.json")
    history = []
    for k, (action, st) in enumerate(states[1:], start=1):
        act = st["act"]
        op = act[0]
        history.append(repr(act)[:160])
        with warnings.catch_warnings():
            warnings.simplefilter("ignore")
            import contextlib
            import io
            try:
                with contextlib.redirect_stdout(io.StringIO()):
                    if op == "New":
                        s, name, kw = act[1], act[2], act[3]
                        try:
                            objs[s] = AlgorithmSettings(NAMES[name], **kwargs_of(kw))
                        except LeaspyAlgoInputError:
                            pass
                    elif op == "MutateTop":
                        objs[act[1]].parameters["n_iter"] = A_VAL[act[2]]
                    elif op == "MutateNested":
                        objs[act[1]].parameters["annealing"][D_KEYS[act[2]]] = D_VAL[act[2]][act[3]]
                    elif op == "Save":
                        objs[act[1]].save(path)
                    elif op == "WriteHand":
                        write_hand(path, act[1], act[2])
                    elif op == "Load":
                        try:
                            objs[act[1]] = AlgorithmSettings.load(path)
                        except LeaspyAlgoInputError:
                            pass
                    elif op == "MakeAlgo":
                        a = algorithm_factory(objs[act[1]])
                        algo_params = a.algo_parameters
                        algo_name = project(objs[act[1]])["name"]
            except Exception as e:  # noqa: BLE001
                return k, f"[note:exception] {op} raised {type(e).__name__}: {str(e)[:120]}", history
        # projection of every slot
        sobjs = st["objs"] if isinstance(st["objs"], dict) else {i + 1: v for i, v in enumerate(st["objs"])}
        acted = act[1] if op in ("New", "MutateTop", "MutateNested", "Save", "Load", "MakeAlgo") else None
        for s, o in sobjs.items():
            want = spec_obj(o)
            got = project(objs.get(s))
            if got != want:
                # which clause of the specification is concerned: only those that state C13 / C11 (caller-owned objects are not
                # modified, objects are isolated, a saved file gives the same settings back, defaults are stable) are violations;
                # the merge semantics of the constructor and the refusal rules are conformance notes (outside the listed properties)
                if s != acted:
                    clause = "isolation"
                elif op in ("Save", "MakeAlgo"):
                    clause = "readonly"
                elif op == "Load" and st["file"][0] == "saved":
                    clause = "roundtrip"
                else:
                    clause = "note:merge"
                return k, f"[{clause}] after {history[-1]}: settings object {s} is {got}, specification says {want}", history
        if op == "Save":
            js = json.load(open(path))
            name = {v: kk for kk, v in NAMES.items()}.get(js.get("name"))
            got = {"name": name, "seed": "null" if js.get("seed") is None else str(js["seed"]), "params": project_params(name, js["parameters"])}
            want = spec_obj(st["file"][1])
            if got != want:
                return k, f"[roundtrip] after {history[-1]}: the file holds {got}, specification says {want}", history
        if op == "MakeAlgo":
            want = st["algo"]
            got = project_params(algo_name, algo_params, strict=False, resolved_ok=True)
            want = {"a": want["a"], "b": want["b"], "d": dict(want["d"]) if isinstance(want["d"], dict) else {}}
            if got != want:
                return k, f"[note:algo] after {history[-1]}: the algorithm holds {got}, specification says {want}", history
        # the shipped defaults are never affected
        for name in NAMES:
            with warnings.catch_warnings():
                warnings.simplefilter("ignore")
                if AlgorithmSettings(NAMES[name]).parameters != defaults(name):
                    return k, f"[defaults] after {history[-1]}: a fresh {NAMES[name]} settings object no longer holds the shipped defaults", history
    return None


def _kw_tla(rnd):
    a = rnd.choice(['"absent"', '"v7"'])
    b = rnd.choice(['"absent"', '"absent"', '"v7"'])
    kind = rnd.choice(["absent", "scalar", "dict", "dict", "dict"])
    keys = [k for k in ("x", "y", "z") if rnd.random() < 0.5] if kind == "dict" else []
    val = "<<>>" if not keys else "[k \\in {" + ", ".join(f'"{k}"' for k in keys) + '} |-> "v7"]'
    seed = rnd.choice(['"absent"', '"absent"', '"3"', '"bad"'])
    return f'[a |-> {a}, b |-> {b}, d |-> [kind |-> "{kind}", val |-> {val}], seed |-> {seed}]'


def simulate_behaviours(outdir, num, depth, seed, batches=4):
    """TLC -simulate on Settings.tla; the keyword-argument space of New is cut down to a seeded sample per batch (definition
    override Kwargs <- KwSample), otherwise the hundreds of variants of New crowd out the other operations."""
    os.makedirs(outdir, exist_ok=True)
    rnd = random.Random(seed)
    out = []
    for bi in range(batches):
        kws = {'[a |-> "absent", b |-> "absent", d |-> [kind |-> "absent", val |-> <<>>], seed |-> "absent"]'} | {_kw_tla(rnd) for _ in range(3)}
        mod = f"SettingsSim{bi}"
        with open(os.path.join(outdir, mod + ".tla"), "w") as f:
            f.write(f"---- MODULE {mod} ----\nEXTENDS Settings\nKwSample == {{" + ",\n   ".join(sorted(kws)) + "}\n====\n")
        cfg = os.path.join(outdir, f"sim{bi}.cfg")
        with open(cfg, "w") as f:
            f.write('SPECIFICATION Spec\nCONSTANTS\n  Slots = {1, 2}\n  Algos = {"perso", "fit"}\n  MaxOps = 100\n  Kwargs <- KwSample\n')
        res = tlc.run(mod, cfg, cwd=outdir, workers=1, simulate=f"file={outdir}/tr{bi}_,num={max(1, num // batches)}", depth=depth,
                      seed=rnd.randrange(1, 2 ** 31), deadlock=False, timeout=600)
        tlc.require_ok(res, "simulate Settings")
        for f in sorted(glob.glob(os.path.join(outdir, f"tr{bi}_*"))):
            with open(f) as fh:
                out.append(tlaval.parse_sim_trace(fh.read()))
    return out


def run(ctx, num, depth, design=True):
    if design:
        res = tlc.run("Settings", "MC_Settings_quick.cfg" if ctx.quick else "MC_Settings.cfg", workers=16, timeout=3000)
        tlc.require_ok(res, "MC_Settings")
        ctx.add_tlc("Settings: 2 objects, 2 algorithms, histories of 3 operations", res)
        ctx.log(f"TLC Settings: {res.distinct} states, violated={res.violated} ({res.wall:.1f}s)")
        if res.violated:
            ctx.violation({"check": "design", "invariant": res.violated[0]}, f"Settings.tla violates {res.violated}", replay=res.trace_text[:3000])
    out = os.path.join(ctx.tmp, "settings")
    rnd = random.Random(ctx.seed + 5)
    behaviours = simulate_behaviours(out, num, depth, rnd.randrange(1, 2 ** 31))
    n_bad, ops, notes = 0, {}, []
    for b in behaviours:
        ctx.traces += 1
        for _, st in b[1:]:
            ops[st["act"][0]] = ops.get(st["act"][0], 0) + 1
        bad = run_behaviour(b, out)
        if bad:
            k, msg, history = bad
            if msg.startswith("[note:"):
                notes.append(msg)
                continue
            n_bad += 1
            if n_bad <= 3:
                ctx.violation({"check": "settings_replay", "clause": msg[1:msg.index("]")]},
                              f"AlgorithmSettings disagrees with Settings.tla at step {k}: {msg}", replay={"history": history, "message": msg})
    ctx.extra["settings_ops_replayed"] = ops
    ctx.extra["settings_conformance_notes"] = notes[:5]
    ctx.log(f"Settings: replayed {len(behaviours)} histories ({sum(ops.values())} operations: {ops}): {n_bad} disagreements, "
            f"{len(notes)} conformance notes outside the listed properties{(': ' + notes[0][:200]) if notes else ''}")
    if len(notes) > len(behaviours) // 2:
        raise tlc.MachineryError(f"Settings.tla no longer describes the constructor / loader ({len(notes)} of {len(behaviours)} histories diverge): {notes[0][:300]}")
    missing = {"New", "MutateTop", "MutateNested", "Save", "Load", "WriteHand", "MakeAlgo"} - set(ops)
    if missing:
        raise tlc.MachineryError(f"vacuity: operations never replayed: {missing}")
