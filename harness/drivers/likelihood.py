"""Driver for specs/Likelihood.tla: instantiates each case with numeric points, runs the real distribution families."""
from __future__ import annotations

import math
import random

import torch

import leaspy.models  # noqa: F401
from leaspy.utils.weighted_tensor import WeightedTensor
from leaspy.variables.distributions import (
    BernoulliFamily,
    NormalFamily,
    WeibullRightCensoredFamily,
    WeibullRightCensoredWithSourcesFamily,
)

from ..terms import ev

RHO = {"lt1": [0.6, 0.85], "eq1": [1.0], "gt1": [1.5, 2.0, 2.7], "eq3": [3.0, 5.0]}


def totuple(t):
    return tuple(totuple(x) for x in t) if isinstance(t, (tuple, list)) else (str(t) if not isinstance(t, (int, bool)) else t)


def close(a, b, rel=2e-4, abs_=1e-5):
    if a != a or b != b:
        return False
    if math.isinf(a) or math.isinf(b):
        return a == b
    return abs(a - b) <= abs_ + rel * abs(b)


def run_case(case, rnd, n_points):
    fam = str(case["fam"])
    term = totuple(case["term"])
    kind = str(case["kind"])
    jac = totuple(case["jac"]) if "jac" in case else ("none",)
    aux = totuple(case["aux"]) if "aux" in case else ()
    rec = {"fam": fam, "cens": str(case["cens"]), "pos": str(case["pos"]), "shp": str(case["shp"]), "src": bool(case["src"]),
           "yb": str(case["yb"]), "pb": str(case["pb"]), "kind": kind, "n_points": 0}
    ok, fin, lay, routes = True, True, True, True
    notes = {"d_self_ok": 0, "d_self_bad": 0, "jac_ok": 0, "jac_bad": 0, "jac_example": None, "pred_ok": 0, "pred_bad": 0, "pred_example": None}
    worst = None
    for _ in range(n_points):
        env = {"pi": math.pi}
        try:
            got, ref, lay_p, routes_p = _point(fam, term, kind, rec, env, rnd, aux, notes)
            if jac[0] != "none":
                _derivative_notes(fam, term, jac, env, notes)
        except Exception as e:  # noqa: BLE001 - the library raised on a value inside the support: a verdict, not a machinery failure
            got, ref, lay_p, routes_p = float("nan"), None, False, False
            if worst is None:
                worst = {"env": {k: v for k, v in env.items() if k != "pi"}, "raised": f"{type(e).__name__}: {str(e)[:200]}"}
        lay &= lay_p
        routes &= routes_p
        rec["n_points"] += 1
        m = ref is not None and close(got, ref, rel=5e-4 if fam == "weibull" else 2e-4)
        if kind == "zero":
            m = abs(got) <= 1e-6
        if kind == "penalty":
            m = math.isfinite(got) and got >= 1e300       # prohibitive but finite
        if not m and worst is None:
            worst = {"env": {k: v for k, v in env.items() if k != "pi"}, "got": got, "expected": ref}
        ok &= m
        fin &= math.isfinite(got)
    rec.update(all_match=bool(ok), all_finite=bool(fin), layouts_match=bool(lay), routes_agree=bool(routes), worst=worst)
    rec["derivative_notes"] = notes
    return rec


def _derivative_notes(fam, term, jac, env, notes):
    """Beyond the listed properties (conformance notes, never violations): the derivative handed out by the Gaussian families
    against D(Term, "x") of Likelihood.tla, and D itself against a central difference of the evaluated term."""
    if "x" not in env:
        return
    d = ev(jac, env)
    h = 1e-4 * max(1.0, abs(env["x"]))
    fd = (ev(term, dict(env, x=env["x"] + h)) - ev(term, dict(env, x=env["x"] - h))) / (2 * h)
    notes["d_self_ok" if abs(d - fd) <= 1e-5 * (1 + abs(d)) else "d_self_bad"] += 1
    try:
        x = WeightedTensor(torch.tensor([[env["x"]]], dtype=torch.float32))
        if fam == "normal":
            g = NormalFamily.nll_jacobian(x, torch.tensor(env["mu"]), torch.tensor(env["sigma"])).value.reshape(-1)[0].item()
            g2 = NormalFamily.nll_and_jacobian(x, torch.tensor(env["mu"]), torch.tensor(env["sigma"]))[1].value.reshape(-1)[0].item()
            good = close(g, d, rel=5e-4, abs_=1e-4) and close(g2, d, rel=5e-4, abs_=1e-4)
        else:
            from leaspy.variables.distributions import MixtureNormalFamily
            mus, sigs = torch.tensor([env["mu"], env["mu"] + 1.0]), torch.tensor([env["sigma"], 2 * env["sigma"]])
            g = MixtureNormalFamily._nll_and_jacobian(x, mus, sigs, torch.tensor([0.3, 0.7]))[1].value.reshape(-1)[0].item()
            good = close(g, d, rel=5e-4, abs_=1e-4)
    except Exception as e:  # noqa: BLE001
        g, good = f"{type(e).__name__}: {str(e)[:80]}", False
    notes["jac_ok" if good else "jac_bad"] += 1
    if not good and notes["jac_example"] is None:
        notes["jac_example"] = {"x": env["x"], "mu": env["mu"], "sigma": env["sigma"], "library": g, "D(Term,x)": d}


def _same_values(a, b):
    return a.shape == b.shape and bool(torch.allclose(a, b, rtol=1e-6, atol=1e-6, equal_nan=False))


def _point(fam, term, kind, rec, env, rnd, aux=(), notes=None):
    """One numeric point of the case: (value of the real family, value of the term, layouts agree, routes agree)."""
    lay, routes = True, True
    if True:
        if fam == "normal":
            env.update(x=rnd.uniform(-3, 80), mu=rnd.uniform(-3, 80), sigma=rnd.choice([0.05, 0.5, 2.0, 7.5]))
            x = WeightedTensor(torch.tensor([[env["x"]]], dtype=torch.float32))
            got = NormalFamily.nll(x, torch.tensor(env["mu"]), torch.tensor(env["sigma"])).value.reshape(-1)[0].item()
            ref = ev(term, env)
            # layouts: per-feature scale (F,) against values (n, T, F); scalar scale
            xs = torch.tensor([[[env["x"], env["x"] + 1.0], [env["mu"], env["x"]]]], dtype=torch.float32)
            sig = torch.tensor([env["sigma"], 2 * env["sigma"]])
            g2 = NormalFamily.nll(WeightedTensor(xs), torch.tensor(env["mu"]), sig).value
            # the same values through the other public route (value and derivative at once, used by the optimisation-based
            # personalization)
            routes &= _same_values(NormalFamily.nll_and_jacobian(WeightedTensor(xs), torch.tensor(env["mu"]), sig)[0].value, g2)
            for (a, b, f) in ((0, 0, 0), (0, 0, 1), (0, 1, 0), (0, 1, 1)):
                e2 = dict(env, x=float(xs[a, b, f]), sigma=float(sig[f]))
                lay &= close(float(g2[a, b, f]), ev(term, e2))
        elif fam == "mixnormal":
            # per-cluster Gaussian regularity of the mixture prior: a scalar individual variable (tau / xi layout: loc, scale per
            # cluster) and a vector one (sources layout: loc per individual source and cluster, one scale per source)
            from leaspy.variables.distributions import MixtureNormalFamily
            mus = [rnd.uniform(-3, 80), rnd.uniform(-3, 80)]
            sigs = [rnd.choice([0.05, 0.5, 2.0]), rnd.choice([0.5, 7.5])]
            xs = [rnd.uniform(-3, 80), rnd.uniform(-3, 80), rnd.uniform(-3, 80)]
            x = WeightedTensor(torch.tensor([[v] for v in xs], dtype=torch.float32))
            probs = torch.tensor([0.3, 0.7])
            g = MixtureNormalFamily._nll(x, torch.tensor(mus), torch.tensor(sigs), probs).value   # (n_ind, n_clusters)
            routes &= _same_values(MixtureNormalFamily._nll_and_jacobian(x, torch.tensor(mus), torch.tensor(sigs), probs)[0].value, g)
            env.update(x=xs[0], mu=mus[0], sigma=sigs[0])
            got = float(g[0, 0])
            ref = ev(term, env)
            for i in range(3):
                for c in range(2):
                    lay &= close(float(g[i, c]), ev(term, dict(env, x=xs[i], mu=mus[c], sigma=sigs[c])))
            # sources layout: value (n_ind, n_sources), loc (n_sources, n_clusters), one scalar scale (as in the model)
            xv = torch.tensor([[xs[0], xs[1]], [xs[2], xs[0]], [xs[1], xs[2]]], dtype=torch.float32)
            loc2 = torch.tensor([[mus[0], mus[1]], [mus[1], mus[0]]], dtype=torch.float32)
            sc2 = torch.tensor(sigs[1])
            g2 = MixtureNormalFamily._nll(WeightedTensor(xv), loc2, sc2, probs).value                               # (n_ind, n_sources, n_clusters)
            routes &= _same_values(MixtureNormalFamily._nll_and_jacobian(WeightedTensor(xv), loc2, sc2, probs)[0].value, g2)
            for i in range(3):
                for sidx in range(2):
                    for c in range(2):
                        lay &= close(float(g2[i, sidx, c]), ev(term, dict(env, x=float(xv[i, sidx]), mu=float(loc2[sidx, c]), sigma=float(sc2))))
        elif fam == "bernoulli":
            y = 1.0 if rec["yb"] == "y1" else 0.0
            p = {"interior": rnd.uniform(0.02, 0.98), "sat0": 0.0, "sat1": 1.0}[rec["pb"]]
            env.update(p=p)
            got = BernoulliFamily.nll(WeightedTensor(torch.tensor([[y]])), torch.tensor([[p]], dtype=torch.float32)).value.reshape(-1)[0].item()
            ref = ev(term, env)
        else:
            rho = rnd.choice(RHO[rec["shp"]])
            tau = rnd.randrange(240, 320) / 4.0          # exactly representable in single precision ("at" means t - tau == 0)
            d = rnd.choice([0.3, 2.0, 11.0])
            t = {"before": tau - d, "at": tau, "after": tau + d, "just_before": tau - 2.0 ** -15, "just_after": tau + 2.0 ** -15}[rec["pos"]]
            env.update(t=t, tau=tau, rho=rho, nu=rnd.choice([0.4, 3.0, 25.0]), xi=rnd.uniform(-1.2, 1.2), shift=rnd.uniform(-1.5, 1.5))
            observed = rec["cens"] == "observed"
            # float64 event times as in Dataset; (n_ind = 2, n_events = 1): the second individual has the opposite censoring
            tt = torch.tensor([[t], [tau + 1.5]], dtype=torch.float64)
            wb = torch.tensor([[observed], [not observed]])
            x = WeightedTensor(tt, wb)
            args = [torch.tensor([env["nu"]]), torch.tensor([rho]), torch.tensor([[env["xi"]], [0.1]]), torch.tensor([[tau], [tau]])]
            if rec["src"]:
                fam_cls = WeibullRightCensoredWithSourcesFamily
                args.append(torch.tensor([[env["shift"]], [0.2]]))
            else:
                fam_cls = WeibullRightCensoredFamily
            got = fam_cls.nll(x, *args).value[0, 0].item()
            ref = 1e307 if kind == "penalty" else ev(term, env)
            # the other routes to the same distribution: log-survival and hazard handed out by the family (the ingredients of the
            # event part of a joint trajectory) against the Survival / LogHazard terms, after the reference time
            if rec["pos"] in ("after", "just_after"):
                if len(aux) != 2:
                    raise RuntimeError("Likelihood.tla shipped no hazard / log-survival terms for a Weibull case after the reference time")
                haz_term, ls_term = aux
                ls = float(fam_cls.compute_log_survival(x, *args)[0, 0])
                hz = float(fam_cls.compute_hazard(x, *args)[0, 0])
                routes &= close(ls, ev(ls_term, env), rel=5e-4, abs_=1e-7) and close(hz, ev(haz_term, env), rel=5e-4, abs_=1e-30)
                rec["route_gap"] = max(rec.get("route_gap", 0.0), abs(hz - ev(haz_term, env)) / (abs(hz) + 1e-300))
                # note (never in the verdict): the corrected survival S(t) / S(t0) predicted for one individual of a single-event
                # joint model (t0 = the first requested time) against exp(LogSurvivalTerm(t) - LogSurvivalTerm(t0))
                if notes is not None:
                    try:
                        times = [t, t + 1.0, t + 4.5]
                        xw = WeightedTensor(torch.tensor([[v] for v in times], dtype=torch.float64), torch.zeros(3, 1).bool())
                        a1 = [args[0], args[1], args[2][:1], args[3][:1]] + ([args[4][:1]] if rec["src"] else [])
                        pred = fam_cls.compute_predictions(xw, *a1).reshape(-1)
                        exp_p = [math.exp(ev(ls_term, dict(env, t=v)) - ev(ls_term, env)) for v in times]
                        good = all(close(float(pred[i]), exp_p[i], rel=2e-3, abs_=1e-6) for i in range(3))
                        notes["pred_ok" if good else "pred_bad"] += 1
                        if not good and notes["pred_example"] is None:
                            notes["pred_example"] = {"got": [float(v) for v in pred], "expected": exp_p}
                    except Exception as e:  # noqa: BLE001 - a note only
                        notes["pred_bad"] += 1
                        if notes["pred_example"] is None:
                            notes["pred_example"] = {"raised": f"{type(e).__name__}: {str(e)[:120]}"}
            # layout with two competing events per individual, each with its own censoring flag
            tt2 = torch.tensor([[t, tau + 2.0], [tau + 1.0, t]], dtype=torch.float64)
            wb2 = torch.tensor([[observed, not observed], [not observed, observed]])
            a2 = [torch.tensor([env["nu"], env["nu"]]), torch.tensor([rho, rho]), torch.tensor([[env["xi"]], [env["xi"]]]),
                  torch.tensor([[tau], [tau]])]
            if rec["src"]:
                a2.append(torch.tensor([[env["shift"], env["shift"]], [env["shift"], env["shift"]]]))
            g2 = fam_cls.nll(WeightedTensor(tt2, wb2), *a2).value
            if kind == "penalty":
                lay &= all(math.isfinite(float(v)) and float(v) >= 1e300 for v in (g2[0, 0], g2[1, 1]))
            else:
                lay &= close(float(g2[0, 0]), ref, rel=5e-4) and close(float(g2[1, 1]), ref, rel=5e-4)
            # the other entries: event after the reference time with the opposite censoring flag
            from ..terms import ev as _ev
            for (i, j, tx) in ((0, 1, tau + 2.0), (1, 0, tau + 1.0)):
                e3 = dict(env, t=tx)
                surv = ("pow", ("div", ("sub", ("var", "t"), ("var", "tau")), NU(rec["src"])), ("var", "rho"))
                haz = ("add", ("log", ("div", ("var", "rho"), NU(rec["src"]))),
                       ("mul", ("sub", ("var", "rho"), ("num", 1, 1)), ("log", ("div", ("sub", ("var", "t"), ("var", "tau")), NU(rec["src"])))))
                exp_other = _ev(surv, e3) - (_ev(haz, e3) if (not observed) else 0.0)
                lay &= close(float(g2[i, j]), exp_other, rel=5e-4)
    return got, ref, lay, routes


def NU(src):
    if src:
        return ("mul", ("var", "nu"), ("exp", ("neg", ("add", ("var", "xi"), ("div", ("var", "shift"), ("var", "rho"))))))
    return ("mul", ("var", "nu"), ("exp", ("neg", ("var", "xi"))))
