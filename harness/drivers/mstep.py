"""Driver for specs/MStep.tla: the library's own update rules on a mini variable graph with exact integer inputs."""
from __future__ import annotations

import torch

import leaspy.models  # noqa: F401
from leaspy.models.mcmc_saem_compatible import McmcSaemCompatibleModel
from leaspy.models.obs_models import FullGaussianObservationModel
from leaspy.utils.weighted_tensor import WeightedTensor
from leaspy.variables.dag import VariablesDAG
from leaspy.variables.distributions import Normal
from leaspy.variables.specs import (
    DataVariable,
    Hyperparameter,
    IndividualLatentVariable,
    ModelParameter,
    NamedVariables,
    PopulationLatentVariable,
)
from leaspy.variables.state import State

_DAGS = {}


def mini_dag(noise_dim):
    if noise_dim in _DAGS:
        return _DAGS[noise_dim]
    obs = FullGaussianObservationModel.with_noise_std_as_model_parameter(noise_dim)
    specs = NamedVariables({"model": DataVariable()})
    specs.update(obs.get_variables_specs(named_attach_vars=False))
    specs.update(
        tau_mean=ModelParameter.for_ind_mean("tau", shape=(1,)),
        tau_std=ModelParameter.for_ind_std("tau", shape=(1,)),
        tau=IndividualLatentVariable(Normal("tau_mean", "tau_std")),
        log_g_mean=ModelParameter.for_pop_mean("log_g", shape=(2,)),
        log_g_std=Hyperparameter(0.01),
        log_g=PopulationLatentVariable(Normal("log_g_mean", "log_g_std")),
    )
    try:
        _DAGS[noise_dim] = VariablesDAG.from_dict(specs)
    except Exception as e:  # noqa: BLE001
        # the observation model may depend on the time-points (data variable `t` of every model): provide it then
        if "'t'" not in str(e):
            raise
        specs.update(t=DataVariable())
        _DAGS[noise_dim] = VariablesDAG.from_dict(specs)
    return _DAGS[noise_dim]


def rat(value, den, tol=2e-5):
    v = float(value)
    if v != v or v in (float("inf"), float("-inf")) or den == 0:
        return {"num": 0, "den": int(den), "close": False}
    num = int(round(v * den))
    return {"num": num, "den": int(den), "close": bool(abs(v * den - num) <= tol * max(1.0, abs(v * den)))}


def run_case(xs, mold, burn, cells, fill=7.5, scale="unit"):
    """cells: list of dicts {i, v, f, c}.  Returns the record for MStepTrace.  scale "tiny": the latent values are
    mold + (x - mold) / 1000 - every dispersion around the pre-step mean is a millionth of the case's."""
    rec = {"xs": list(xs), "mold": int(mold), "burn": bool(burn), "cells": cells, "scale": scale}
    n_i = max(c["i"] for c in cells)
    n_v = max(c["v"] for c in cells)
    n_f = max(c["f"] for c in cells)
    y = torch.full((n_i, n_v, n_f), float(fill))
    m = torch.zeros((n_i, n_v, n_f))
    w = torch.zeros((n_i, n_v, n_f), dtype=torch.bool)
    for c in cells:
        key = (c["i"] - 1, c["v"] - 1, c["f"] - 1)
        if c["c"] == "a":
            y[key], m[key], w[key] = 0.0, 1.0, True
        elif c["c"] == "b":
            y[key], m[key], w[key] = 3.0, 1.0, True
        else:
            m[key] = 2.0
    out = {}
    untouched = False
    batch_ok = True
    pop_ok = True
    status = "ok"
    for noise_dim in (1, n_f):
        st = State(mini_dag(noise_dim))
        st["y"] = WeightedTensor(y.clone(), w.clone())
        if "t" in st.dag:
            # ages of the visits; a visit is real as soon as the cell table lists it with an observed or missing entry
            # (class "c" everywhere = padding)
            real = torch.zeros((n_i, n_v), dtype=torch.bool)
            for c in cells:
                if c["c"] in ("a", "b") or c.get("real", True) and c["c"] != "c":
                    real[c["i"] - 1, c["v"] - 1] = True
            real |= w.any(dim=2)
            st["t"] = WeightedTensor(torch.arange(1.0, n_v + 1).repeat(n_i, 1) + 60.0, real)
        st["model"] = m.clone()
        st["tau"] = torch.tensor([[float(x)] for x in xs]) if scale == "unit" else torch.tensor([[float(mold) + (float(x) - float(mold)) / 1000.0] for x in xs])
        st["tau_mean"] = torch.tensor([float(mold)])
        st["tau_std"] = torch.tensor([1.0])
        st["noise_std"] = torch.ones(noise_dim)
        st["log_g"] = torch.tensor([0.375, -0.25])
        st["log_g_mean"] = torch.tensor([0.0, 0.0])
        steps = []
        o_cu, o_set = ModelParameter.compute_update, State.__setitem__
        names = {id(v): n for n, v in st.dag.sorted_variables_by_type[ModelParameter].items()}

        def cu(self_, *, state, suff_stats, burn_in):
            r = o_cu(self_, state=state, suff_stats=suff_stats, burn_in=burn_in)
            steps.append(("c", names.get(id(self_))))
            return r

        def setitem(self_, name, value):
            if self_ is st and name in names.values():
                steps.append(("a", name))
            return o_set(self_, name, value)
        try:
            stats = McmcSaemCompatibleModel.compute_sufficient_statistics(st)
            ModelParameter.compute_update, State.__setitem__ = cu, setitem
            try:
                McmcSaemCompatibleModel.update_parameters(st, stats, burn_in=bool(burn))
            finally:
                ModelParameter.compute_update, State.__setitem__ = o_cu, o_set
        except Exception as e:  # noqa: BLE001
            status = f"{type(e).__name__}"
            # a refused step must leave every parameter as it was
            untouched = bool(torch.equal(st["tau_mean"], torch.tensor([float(mold)])) and torch.equal(st["tau_std"], torch.tensor([1.0]))
                             and torch.equal(st["noise_std"], torch.ones(noise_dim)) and torch.equal(st["log_g_mean"], torch.tensor([0.0, 0.0])))
            break
        first_a = next((i for i, s in enumerate(steps) if s[0] == "a"), len(steps))
        batch_ok &= all(s[0] == "c" for s in steps[:first_a]) and all(s[0] == "a" for s in steps[first_a:]) and first_a == len(steps) - first_a
        pop_ok &= bool(torch.equal(st["log_g_mean"], st["log_g"]))
        n = len(xs)
        if noise_dim == 1:
            out["mean"] = rat(st["tau_mean"].reshape(-1)[0], n)
            den_var = n * (n - 1) if burn else n
            out["var"] = rat(st["tau_std"].reshape(-1)[0] ** 2, den_var)
            n_obs = int(w.sum())
            out["noise_scalar"] = rat(st["noise_std"].reshape(-1)[0] ** 2, n_obs)
        if noise_dim == n_f:
            out["noise_ft"] = [rat(st["noise_std"].reshape(-1)[f] ** 2 if noise_dim > 1 else st["noise_std"].reshape(-1)[0] ** 2,
                                   int(w[:, :, f].sum())) for f in range(n_f)]
    zero = {"num": 0, "den": 0, "close": False}
    rec.update(status=status, mean=out.get("mean", zero), var=out.get("var", zero), noise_scalar=out.get("noise_scalar", zero),
               noise_ft=out.get("noise_ft", [zero] * n_f), batch_ok=bool(batch_ok), pop_identity=bool(pop_ok), untouched=bool(untouched))
    return rec


def run_mix_case(xs, ws, mold, burn, W=4, far=False):
    """MixStep.tla: the mixture model's own parameter declarations (ModelParameter.for_probs / for_ind_mean_mixture /
    for_ind_std_mixture) evaluated on a state holding the latent values, the pre-step cluster means and cluster
    log-responsibilities log(w / W).  Returns the record for MixStepTrace."""
    n = len(xs)
    rec = {"xs": list(xs), "ws": list(ws), "mold": list(mold), "burn": bool(burn), "far": bool(far)}
    zero = {"num": 0, "den": 0, "close": False}
    rec.update(status="ok", probs=[zero, zero], mean=[zero, zero], var=[zero, zero], mean_vec=[[zero, zero], [zero, zero]])
    sw = [sum(ws), n * W - sum(ws)]
    try:
        r = torch.tensor([[w / W, (W - w) / W] for w in ws], dtype=torch.float64)
        # the rules read the responsibilities as softmax(-nll_regul_ind_sum_ind) (clamped at -100): give them log r
        raw = -torch.log(r)
        if far:
            # an individual beyond the floor: regularity above 100 for both clusters, by different amounts (floored to an even split)
            i_far = next(i for i, w in enumerate(ws) if 2 * w == W)
            raw[i_far] = torch.tensor([150.0, 180.0], dtype=raw.dtype)
        nll = WeightedTensor(raw.float())
        x = torch.tensor([[float(v)] for v in xs])
        xv = torch.tensor([[float(v), -float(v)] for v in xs])
        state = {"tau": x, "tau_mean": torch.tensor([float(m) for m in mold]), "tau_std": torch.ones(2), "sources": xv,
                 "sources_mean": torch.zeros(2, 2), "nll_regul_ind_sum_ind": nll, "probs": torch.tensor([0.5, 0.5])}
        stats = {"tau": x, "tau_sqr": x ** 2, "sources": xv, "sources_sqr": xv ** 2}
        p_probs = ModelParameter.for_probs(shape=(2,))
        p_mean = ModelParameter.for_ind_mean_mixture("tau", shape=(2,))
        p_std = ModelParameter.for_ind_std_mixture("tau", shape=(2,))
        p_vec = ModelParameter.for_ind_mean_mixture("sources", shape=(2, 2))
        probs = p_probs.compute_update(state=state, suff_stats=stats, burn_in=bool(burn)).reshape(-1)
        mean = p_mean.compute_update(state=state, suff_stats=stats, burn_in=bool(burn)).reshape(-1)
        std = p_std.compute_update(state=state, suff_stats=stats, burn_in=bool(burn)).reshape(-1)
        vec = p_vec.compute_update(state=state, suff_stats=stats, burn_in=bool(burn))
        den_var = n * (n - 1) if burn else n
        if std.numel() == 1:
            std = std.repeat(2)
        rec["probs"] = [rat(probs[c], n * W) for c in range(2)]
        rec["mean"] = [rat(mean[c], sw[c]) for c in range(2)]
        rec["var"] = [rat(std[c] ** 2, den_var) for c in range(2)]
        rec["mean_vec"] = [[rat(vec[s, c], sw[c]) for c in range(2)] for s in range(2)]
    except Exception as e:  # noqa: BLE001 - the rule raised on an admissible case: a verdict
        rec["status"] = f"{type(e).__name__}: {str(e)[:120]}"
    return rec
