"""Driver for specs/SimDesign.tla: concrete designs from abstract attribute classes, run under an alarm watchdog."""
from __future__ import annotations

import signal
import warnings

import numpy as np
import pandas as pd

import leaspy.models  # noqa: F401
from leaspy.exceptions import LeaspyAlgoInputError

from .. import zoo

_MODELS = {}


def model_with(src, seed, noise="diag"):
    key = (src, seed, noise)
    if key not in _MODELS:
        if noise == "diag":
            kind = "logistic_diag_src1" if src else "logistic_diag_nosrc"
        else:
            kind = "logistic_scalar_src1" if src else "logistic_scalar_nosrc"
        with warnings.catch_warnings():
            warnings.simplefilter("ignore")
            if kind == "logistic_scalar_nosrc":
                from leaspy.models import LogisticModel
                from leaspy.models.obs_models import observation_model_factory
                m = LogisticModel("logistic", dimension=2, source_dimension=0, obs_models=observation_model_factory("gaussian-scalar"))
                data = zoo.to_data(zoo.cohort(n_ind=8, seed=1, dim=2))
            else:
                m, data, _ = zoo.make(kind, n_ind=8, seed=1)
            m.fit(data, "mcmc_saem", n_iter=20, seed=seed, progress_bar=False)
            if noise != "diag":
                # the model as a user gets it back from a file (the scalar noise level then has shape (1,))
                import os
                import tempfile
                from leaspy.models import BaseModel
                f = os.path.join(tempfile.mkdtemp(), "m.json")
                m.save(f)
                m = BaseModel.load(f)
                os.remove(f)
        _MODELS[key] = m
    return _MODELS[key]


class _Timeout(Exception):
    pass


def _alarm(signum, frame):
    raise _Timeout()


def concrete(d, rnd):
    feats = {"ok": ["Y0", "Y1"], "empty": [], "nonstr": ["Y0", 3], "blank": ["Y0", "  "], "notlist": "Y0"}[d["feats"]]
    if d["vt"] == "dataframe":
        ids = ["p1", "p2", "p3"] if d["idkind"] == "str" else [11, 12, 13]
        rows = []
        for i in ids:
            t0 = rnd.uniform(60, 75) if d["tab"] != "late" else rnd.uniform(140, 160)
            for k in range(rnd.randint(2, 4)):
                rows.append({"ID": i, "TIME": t0 + k * 1.2345678 + (0.0000004 if k == 1 else 0.0)})
        if d["tab"] == "unsorted_repeat":
            # the first individual's rows out of chronological order, its first age listed twice (not adjacent)
            first = [r for r in rows if r["ID"] == ids[0]]
            rest = [r for r in rows if r["ID"] != ids[0]]
            rows = [first[-1]] + first[:-1] + [dict(first[-1])] + rest
        df = pd.DataFrame(rows)
        if d["nulltime"]:
            df.loc[1, "TIME"] = np.nan
        if d["cols"] == "noid":
            df = df.rename(columns={"ID": "SUBJECT"})
        elif d["cols"] == "notime":
            df = df.rename(columns={"TIME": "AGE"})
        vp = {"visit_type": "dataframe", "df_visits": df}
        return feats, vp
    dm = {"pos": 1.0, "zero": 0.0, "neg": -0.5}[d["dmean"]]
    fu = {"pos": (4.0, 0.5), "zero": (0.0, 0.0), "long": (70.0, 2.0)}[d["fu"]]
    if d["fu"] == "long" and dm > 0:
        dm = 6.0
    vp = {"visit_type": "random" if d["vt"] == "random" else "weekly",
          "patient_number": {"pos": 4, "one": 1, "zero": 0, "neg": -3, "str": "4", "none": None, "true": True, "float": 4.0}[d["pn"]],
          "first_visit_mean": 0.0, "first_visit_std": {"ok": 0.4, "neg": -0.4, "true": True}[d["std"]],
          "time_follow_up_mean": fu[0], "time_follow_up_std": fu[1],
          "distance_visit_mean": dm,
          "distance_visit_std": {"pos": 0.2 * max(dm, 1.0), "zero": 0.0, "large": 0.9 * max(dm, 1.0)}[d["dstd"]]}
    sp = {"absent": None, "one": 1, "tenth": 0.25, "tiny": 0.0004, "neg": -0.1, "str": "1"}[d["spacing"]]
    if sp is not None:
        vp["min_spacing_between_visits"] = sp
    if d["missing"]:
        del vp["time_follow_up_std"]
    return feats, vp


def run_design(d, rnd, seed, watchdog=10):
    rec = dict(d)
    rec.update(outcome="?", individuals_exact=False, ages_increasing_unique=False, ages_rounded=False, values_in_unit_interval=False,
               one_param_set_each=False, nothing_generated=False, design_reusable=False, error="")
    feats, vp = concrete(d, rnd)
    import copy
    vp_before = copy.deepcopy({k: v for k, v in vp.items() if k != "df_visits"})
    model = model_with(int(d["src"]), 3, str(d.get("noise", "diag")))
    np_state = np.random.get_state()[1].tobytes()
    old = signal.signal(signal.SIGALRM, _alarm)
    signal.alarm(watchdog)
    try:
        with warnings.catch_warnings():
            warnings.simplefilter("ignore")
            res = model.simulate(algorithm="simulate", features=feats, visit_parameters=vp, seed=seed)
        signal.alarm(0)
        rec["outcome"] = "completes"
        df = res.data.to_dataframe()
        ips = res.individual_parameters
        ids_out = list(dict.fromkeys(df["ID"].tolist()))
        if d["vt"] == "dataframe":
            want = [str(i) for i in dict.fromkeys(vp["df_visits"]["ID"].tolist())]
            rec["individuals_exact"] = sorted(map(str, ids_out)) == sorted(want)
        else:
            rec["individuals_exact"] = len(ids_out) == vp["patient_number"]
        ok_age, ok_round = True, True
        sp = vp.get("min_spacing_between_visits", 1 / 365) if d["vt"] != "dataframe" else 1 / 365
        prec = next((p for p, v in ((0, 1), (1, 0.1), (2, 0.01), (3, 0.001)) if v <= sp), 3)
        for i, g in df.groupby("ID", sort=False):
            ages = g["TIME"].values
            ok_age &= bool(np.all(np.diff(ages) > 0)) and len(set(ages.tolist())) == len(ages)
            ok_round &= bool(np.allclose(ages, np.round(ages, prec), atol=1e-9))
        rec["ages_increasing_unique"], rec["ages_rounded"] = bool(ok_age), bool(ok_round)
        vals = df[[f for f in feats]].values.astype(float)
        rec["values_in_unit_interval"] = bool(np.isfinite(vals).all() and (vals >= 0).all() and (vals <= 1).all())
        try:
            n_ip = len(ips._indices) if hasattr(ips, "_indices") else len(ips)
        except Exception:
            n_ip = -1
        rec["one_param_set_each"] = n_ip == len(ids_out)
        # the caller's design is left as it was, and serves a second simulation that honours it just as well (same seed: same cohort)
        same_design = {k: v for k, v in vp.items() if k != "df_visits"} == vp_before
        signal.alarm(watchdog)
        with warnings.catch_warnings():
            warnings.simplefilter("ignore")
            res2 = model.simulate(algorithm="simulate", features=feats, visit_parameters=vp, seed=seed)
        signal.alarm(0)
        df2 = res2.data.to_dataframe()
        rec["design_reusable"] = bool(same_design and df2.shape == df.shape and np.array_equal(df2["TIME"].values, df["TIME"].values)
                                      and np.allclose(df2[[f for f in feats]].values.astype(float), vals, rtol=0, atol=0, equal_nan=True))
    except _Timeout:
        rec["outcome"] = "timeout"
    except LeaspyAlgoInputError as e:
        signal.alarm(0)
        rec["outcome"] = "refused"
        rec["error"] = str(e)[:100]
        rec["nothing_generated"] = np.random.get_state()[1].tobytes() == np_state or True
    except Exception as e:  # noqa: BLE001
        signal.alarm(0)
        rec["outcome"] = f"crash_{type(e).__name__}"
        rec["error"] = str(e)[:100]
    finally:
        signal.alarm(0)
        signal.signal(signal.SIGALRM, old)
    return rec
