"""Driver for specs/ModelLifecycle.tla: replays TLC behaviours (API call histories) on real model objects."""
from __future__ import annotations

import copy
import glob
import hashlib
import os
import random
import warnings

import numpy as np
import pandas as pd
import torch

import leaspy.models  # noqa: F401
from leaspy.algo import AlgorithmSettings
from leaspy.io.data import Data
from leaspy.io.outputs import IndividualParameters
from leaspy.models import BaseModel
from leaspy.variables.specs import DataVariable, IndividualLatentVariable, PopulationLatentVariable

from .. import tlaval, tlc, zoo
from .saem import pop_at_mode

SEED_BASE = 100


def _h(*arrays):
    h = hashlib.sha1()
    for a in arrays:
        a = np.ascontiguousarray(np.asarray(a))
        h.update(str(a.dtype).encode() + str(a.shape).encode() + a.tobytes())
    return h.hexdigest()[:16]


def params_hash(model):
    return _h(*[np.asarray(model.parameters[k]) for k in sorted(model.parameters)])


def hyper_repr(model):
    """Hyper-parameters of the model as the file would hold them (kind, features, dimension, sources, observation models)."""
    try:
        d = model.to_dict()
    except Exception as e:  # noqa: BLE001
        return f"to_dict failed: {type(e).__name__}"
    return repr({k: v for k, v in d.items() if k not in ("parameters", "leaspy_version")})


def pop_hash(model):
    st = model.state
    vals = []
    for n in st.dag.sorted_variables_by_type.get(PopulationLatentVariable, {}):
        v = st._values[n]
        vals.append(np.zeros(0) if v is None else v.detach().numpy())
    return _h(*vals)


class Replayer:
    def __init__(self, kind, workdir):
        self.kind = kind
        self.workdir = workdir
        self.dfs = {}
        for i, d in enumerate(("D1", "D2")):
            _, _, df = zoo.make(kind, n_ind=5, seed=i, missing=0.0 if d == "D1" else 0.25)
            self.dfs[d] = df
        # the caller's objects, kept and re-used for the whole replay: D1 is passed as a table, D2 as a Dataset object
        # (with missing entries inside visits); one settings object per (call, data set, seed), D2 with annealing switched on
        from leaspy.io.data import Data
        from leaspy.io.data.dataset import Dataset
        joint = bool(zoo.CONFIGS[kind][1].get("events"))
        self.data_d1 = Data.from_dataframe(self.dfs["D1"], data_type="joint") if joint else Data.from_dataframe(self.dfs["D1"])
        # (a table of a joint cohort cannot be passed as such: its event columns would be read as features)
        self.inputs = {"D1": self.dfs["D1"] if not joint else Data.from_dataframe(self.dfs["D1"], data_type="joint"),
                       "D2": Dataset(Data.from_dataframe(self.dfs["D2"], data_type="joint") if joint else Data.from_dataframe(self.dfs["D2"]))}
        self.settings = {}
        self.features = [c for c in self.dfs["D1"].columns if c.startswith("Y")]

    def settings_for(self, op, d, seed):
        key = (op, d, seed)
        if key not in self.settings:
            algo = {"Fit": "mcmc_saem", "PersoScipy": "scipy_minimize", "PersoScipyCustom": "scipy_minimize", "PersoMean": "mean_posterior",
                    "PersoMode": "mode_posterior"}[op]
            kw = dict(seed=SEED_BASE + seed, progress_bar=False)
            if op == "PersoScipyCustom":
                kw.update(use_jacobian=False, custom_scipy_minimize_params=dict(method="Powell", options=dict(maxiter=2)))
            if op == "Fit":
                kw["n_iter"] = 4
            elif op not in ("PersoScipy", "PersoScipyCustom"):
                kw["n_iter"] = 5
            if d == "D2" and op not in ("PersoScipy", "PersoScipyCustom"):
                kw["annealing"] = dict(do_annealing=True, initial_temperature=5.0, n_plateau=2, n_iter=None, n_iter_frac=0.5)
            self.settings[key] = AlgorithmSettings(algo, **kw)
        return self.settings[key]

    @staticmethod
    def snap(obj):
        if isinstance(obj, pd.DataFrame):
            return obj.copy(deep=True)
        return copy.deepcopy(obj)

    @classmethod
    def same(cls, a, b):
        if isinstance(a, pd.DataFrame):
            return a.equals(b) and list(a.columns) == list(b.columns) and list(a.index) == list(b.index)
        if torch.is_tensor(a):
            return torch.is_tensor(b) and a.dtype == b.dtype and a.shape == b.shape and torch.equal(a.isnan(), b.isnan()) \
                and torch.equal(torch.nan_to_num(a), torch.nan_to_num(b))
        if isinstance(a, np.ndarray):
            return isinstance(b, np.ndarray) and a.shape == b.shape and a.dtype == b.dtype and bool(np.array_equal(a, b, equal_nan=a.dtype.kind == "f"))
        if isinstance(a, dict):
            return isinstance(b, dict) and list(a) == list(b) and all(cls.same(a[k], b[k]) for k in a)
        if isinstance(a, (list, tuple)):
            return type(a) is type(b) and len(a) == len(b) and all(cls.same(x, y) for x, y in zip(a, b))
        if hasattr(a, "__dict__") and not isinstance(a, type):
            return type(a) is type(b) and cls.same(vars(a), vars(b))
        try:
            return bool(a == b) or (a != a and b != b)
        except Exception:  # noqa: BLE001
            return True

    @staticmethod
    def leftover(model):
        """Names of attributes of the model holding a State (other than model.state) with call data / individual latent values."""
        from leaspy.variables.state import State
        out = []

        def visit(name, v, depth):
            if isinstance(v, State):
                if v is not getattr(model, "_state", None):
                    kept = [n for n in v.dag if isinstance(v.dag[n], (DataVariable, IndividualLatentVariable)) and v._values.get(n) is not None]
                    if kept:
                        out.append(f"{name} keeps {kept[:4]}")
            elif depth < 2 and isinstance(v, (list, tuple)):
                for i, x in enumerate(v):
                    visit(f"{name}[{i}]", x, depth + 1)
            elif depth < 2 and isinstance(v, dict):
                for k, x in v.items():
                    visit(f"{name}[{k!r}]", x, depth + 1)
        for k, v in vars(model).items():
            visit(k, v, 0)
        return out

    def fixed_ips(self, model):
        ips = IndividualParameters()
        src = int(getattr(model, "source_dimension", 0) or 0)
        for k, sid in enumerate(("a", "b")):
            d = {"tau": 70.0 + k, "xi": 0.1 * (k + 1)}
            if src:
                d["sources"] = [0.2 * (k + 1)] * src
            ips.add_individual_parameters(sid, d)
        return ips

    def project(self, model):
        if not model.is_initialized:
            return "none", False
        st = model.state
        data_vars = [n for n in st.dag if isinstance(st.dag[n], DataVariable)]
        has_data = any(st._values[n] is not None for n in data_vars)
        which = "none"
        if has_data:
            t = st._values.get("t")
            tv = t.value if hasattr(t, "value") else t
            for d, df in self.dfs.items():
                if tv is not None and tv.shape[0] == df["ID"].nunique() and abs(float(tv.flatten()[0]) - float(df["TIME"].iloc[0])) < 1e-3:
                    which = d
            if which == "none":
                which = "other"
        ind = [n for n in st.dag if isinstance(st.dag[n], IndividualLatentVariable)]
        has_lat = any(st._values[n] is not None for n in ind)
        return which, has_lat

    def run_behaviour(self, states, obs):
        """states: parsed TLC behaviour.  obs: list collecting (term, result hash, history).  Returns None or (k, msg)."""
        model = zoo.CONFIGS[self.kind][0]()
        history = []
        fpath = os.path.join(self.workdir, f"model_{len(obs)}_{random.random()}.json")
        for k, (action, st) in enumerate(states[1:], start=1):
            prev = states[k - 1][1]
            last = st["last"]
            call = tuple(st["act"])
            history.append(call)
            pre_params = params_hash(model) if model.is_initialized else None
            pre_pop = pop_hash(model) if model.is_initialized else None
            pre_hyper = hyper_repr(model) if model.is_initialized else None
            inputs_ok = True
            result = None
            try:
                with warnings.catch_warnings():
                    warnings.simplefilter("ignore")
                    op = call[0]
                    if op == "Fit":
                        df = self.inputs[call[1]]
                        snap = self.snap(df)
                        settings = self.settings_for(op, call[1], call[2])
                        psnap = copy.deepcopy(vars(settings))
                        model.fit(df, algorithm_settings=settings)
                        inputs_ok = self.same(snap, df) and self.same(psnap, vars(settings))
                    elif op == "Estimate":
                        ips = self.fixed_ips(model)
                        tp = {"a": [70.0, 75.5, 64.0], "b": [72.25]}
                        tsnap = copy.deepcopy(tp)
                        est = model.estimate(tp, ips)
                        result = _h(*[est[i] for i in sorted(est)])
                        inputs_ok = tp == tsnap
                    elif op == "EstimateFrame" and type(model).__name__ == "JointModel":
                        # (the table form of the estimates cannot be built for the joint model on the tree as given: the event
                        #  prediction adds a column for which there is no feature name - outside this property, see DESIGN 9.5)
                        pass
                    elif op == "EstimateFrame":
                        ips = self.fixed_ips(model)
                        tp = {"a": [70.0, 75.5, 64.0], "b": [72.25]}        # the caller's own mapping of plain lists
                        tsnap = copy.deepcopy(tp)
                        est = model.estimate(tp, ips, to_dataframe=True)
                        result = _h(est.values.astype(float), np.array([str(i) for i in est.index], dtype="U"))
                        inputs_ok = repr(tp) == repr(tsnap) and type(tp["a"]) is list and type(tp["b"]) is list
                    elif op in ("PersoScipy", "PersoMean", "PersoMode", "PersoScipyCustom"):
                        # D1: a Data object kept by the caller (the fit receives the table), D2: a Dataset object
                        df = self.data_d1 if call[1] == "D1" else self.inputs[call[1]]
                        snap = self.snap(df)
                        settings = self.settings_for(op, call[1], call[2])
                        psnap = copy.deepcopy(vars(settings))
                        ips = model.personalize(df, algorithm_settings=settings)
                        r1 = ips.to_dataframe()
                        result = _h(r1.values, np.array(list(r1.index), dtype="U"))
                        inputs_ok = self.same(snap, df) and self.same(psnap, vars(settings))
                    elif op == "Simulate" and type(model).__name__ != "LogisticModel":
                        pass          # simulation is defined for logistic models only (C18): nothing is called, nothing may change
                    elif op == "SimulateTable" and type(model).__name__ != "LogisticModel":
                        pass
                    elif op == "SimulateTable":
                        # (a caller's table as it comes: individuals interleaved, ages not in order, an index that is not 0..n-1)
                        tab = pd.DataFrame({"ID": [12, 11, 12, 11, 12], "TIME": [72.125, 71.5, 68.25, 70.0, 69.0]}, index=[5, 3, 9, 1, 7])
                        vp = {"visit_type": "dataframe", "df_visits": tab}
                        tsnap, dsnap = tab.copy(deep=True), list(tab.dtypes)
                        res = model.simulate(algorithm="simulate", features=list(model.features), visit_parameters=vp, seed=SEED_BASE + call[1])
                        df_sim = res.data.to_dataframe()
                        result = _h(df_sim[list(model.features)].values, df_sim["TIME"].values)
                        inputs_ok = tab.equals(tsnap) and list(tab.dtypes) == dsnap and list(tab.columns) == list(tsnap.columns) and vp["df_visits"] is tab \
                            and list(tab.index) == list(tsnap.index)
                    elif op == "Simulate":
                        vp = {"patient_number": 3, "visit_type": "random", "first_visit_mean": 0.0, "first_visit_std": 0.4,
                              "time_follow_up_mean": 4, "time_follow_up_std": 0.5, "distance_visit_mean": 1.0,
                              "distance_visit_std": 0.2, "min_spacing_between_visits": 0.1}
                        vsnap = copy.deepcopy(vp)
                        res = model.simulate(algorithm="simulate", features=list(model.features), visit_parameters=vp,
                                             seed=SEED_BASE + call[1])
                        df_sim = res.data.to_dataframe()
                        result = _h(df_sim[list(model.features)].values, df_sim["TIME"].values)
                        inputs_ok = vp == vsnap
                    elif op == "FailedCall":
                        raised = False
                        try:
                            if call[1] == "events_only":
                                ev = pd.DataFrame({"ID": ["e1", "e2"], "EVENT_TIME": [70.0, 72.0], "EVENT_BOOL": [1, 0]})
                                model.personalize(Data.from_dataframe(ev, data_type="event"), "mode_posterior", n_iter=3, seed=1, progress_bar=False)
                            elif call[1] == "bad_ips":
                                ips = IndividualParameters()
                                ips.add_individual_parameters("a", {"tau": 70.0})
                                model.estimate({"a": [70.0]}, ips)
                            else:
                                bad = self.dfs["D1"].assign(YEXTRA=0.5)         # one feature too many: fails deep inside the evaluation
                                if "EVENT_TIME" in bad.columns:
                                    bad = Data.from_dataframe(bad, data_type="joint")
                                model.personalize(bad, "mode_posterior", n_iter=3, seed=1, progress_bar=False)
                        except Exception:  # noqa: BLE001
                            raised = True
                        if not raised:
                            return k, f"{call} did not raise", history
                    elif op == "Save":
                        model.save(fpath)
                    elif op == "Load":
                        model = BaseModel.load(fpath)
                    elif op == "BurnRng":
                        for _ in range(7):
                            random.random()
                        np.random.rand(13)
                        torch.rand(17)
                        torch.randn(3)
            except Exception as e:  # noqa: BLE001
                return k, f"{call} raised {type(e).__name__}: {e}", history
            # projection
            which, has_lat = self.project(model)
            if which != st["data"]:
                return k, f"after {call}: data in model state is {which!r}, specification says {st['data']!r}", history
            if has_lat != (st["indlat"] != ("unset",)):
                return k, f"after {call}: individual latent values set={has_lat}, specification says {st['indlat']}", history
            if model.is_initialized and (st["pop"] == "mode") != pop_at_mode(model):
                return k, f"after {call}: population variables at prior modes = {pop_at_mode(model)}, specification says {st['pop']}", history
            if not inputs_ok:
                return k, f"after {call}: a caller-owned input object was modified", history
            if op in ("Estimate", "EstimateFrame", "PersoScipy", "PersoScipyCustom", "PersoMean", "PersoMode", "Simulate", "SimulateTable"):
                left = self.leftover(model)
                if left:
                    return k, f"after {call}: data or latent values of the call left behind in the model: {left}", history
            if st["params"] == prev["params"] and pre_params is not None and op != "Load":
                if params_hash(model) != pre_params:
                    return k, f"{call} changed the model parameters", history
                if pop_hash(model) != pre_pop:
                    return k, f"{call} changed the population variables", history
                if op != "Fit" and hyper_repr(model) != pre_hyper:
                    return k, f"{call} changed the hyper-parameters: {pre_hyper} -> {hyper_repr(model)}", history
            if result is not None:
                obs.append((repr(last), result, list(history)))
            elif op == "Fit":
                obs.append((repr(("params",) + tuple(st["params"])), params_hash(model), list(history)))
        return None


N_SCRIPTS = 10


def simulate_behaviours(outdir, num, depth, seed, seeds="{0}"):
    os.makedirs(outdir, exist_ok=True)
    out = []
    # directed histories first (Script1..N of MC_ModelLifecycle.tla): one behaviour each, generated by TLC
    for i in range(1, N_SCRIPTS + 1):
        cfg = os.path.join(outdir, f"script{i}.cfg")
        with open(cfg, "w") as f:
            f.write('SPECIFICATION Spec\nCONSTANTS\n  Datasets = {"D1", "D2"}\n  Seeds = {0, 1}\n  MaxCalls = 100\n  FitLeavesCohort = TRUE\n'
                    f'  Script <- Script{i}\n')
        res = tlc.run("MC_ModelLifecycle", cfg, workers=1, simulate=f"file={outdir}/sc{i}_,num=1", depth=20, seed=1, deadlock=False, timeout=600)
        tlc.require_ok(res, f"simulate ModelLifecycle Script{i}")
        for f in sorted(glob.glob(os.path.join(outdir, f"sc{i}_*"))):
            with open(f) as fh:
                out.append(tlaval.parse_sim_trace(fh.read()))
    if len(out) != N_SCRIPTS or any(len(b) < 5 for b in out):
        raise tlc.MachineryError(f"scripted behaviours not generated as expected: {[len(b) for b in out]}")
    cfg = os.path.join(outdir, "sim.cfg")
    with open(cfg, "w") as f:
        f.write('SPECIFICATION Spec\nCONSTANTS\n  Datasets = {"D1", "D2"}\n  Seeds = ' + seeds + '\n  MaxCalls = 100\n  FitLeavesCohort = TRUE\n  Script <- Free\n')
    res = tlc.run("MC_ModelLifecycle", cfg, workers=1, simulate=f"file={outdir}/tr,num={num}", depth=depth, seed=seed,
                  deadlock=False, timeout=600)
    tlc.require_ok(res, "simulate ModelLifecycle")
    for f in sorted(glob.glob(os.path.join(outdir, "tr*"))):
        with open(f) as fh:
            out.append(tlaval.parse_sim_trace(fh.read()))
    return out




def run_replay(ctx, pid, kinds, num, depth, seeds_set="{0}"):
    """Spec -> code: replay simulated call histories; equal result terms must give bit-identical observations."""
    rnd = random.Random(ctx.seed)
    for kind in kinds:
        out = os.path.join(ctx.tmp, f"life_{kind}")
        behaviours = simulate_behaviours(out, num, depth, rnd.randrange(1, 2 ** 31), seeds=seeds_set)
        rp = Replayer(kind, ctx.tmp)
        obs = []
        n_bad = 0
        for b in behaviours:
            ctx.traces += 1
            ctx.case(key=(kind, tuple(tuple(st["act"]) for _, st in b[1:])))
            bad = rp.run_behaviour(b, obs)
            if len(ctx.samples) < 3:
                ctx.sample({"kind": kind, "calls": [list(st["act"]) for _, st in b[1:]]})
            if bad:
                k, msg, history = bad
                n_bad += 1
                ctx.violation({"check": "lifecycle_replay", "call": history[-1][0], "what": msg.split(":")[1].strip()[:60] if ":" in msg else msg[:60]},
                              f"{kind}: model object disagrees with ModelLifecycle.tla at call {k} of {history}: {msg}",
                              replay={"kind": kind, "calls": history, "message": msg})
        groups = {}
        for term, h, hist in obs:
            groups.setdefault(term, []).append((h, hist))
        n_multi = 0
        for term, items in groups.items():
            if len(items) > 1:
                n_multi += 1
            hs = {h for h, _ in items}
            if len(hs) > 1:
                a = items[0]
                b = next(x for x in items if x[0] != a[0])
                call = term.split(",")[0].strip("('\"")
                ctx.violation({"check": "history_dependence", "call": call},
                              f"{kind}: the same call {term[:160]} gave different results after histories {a[1]} and {b[1]}",
                              replay={"kind": kind, "term": term, "history_a": a[1], "history_b": b[1]})
        ctx.extra[f"{kind}_observations"] = len(obs)
        ctx.extra[f"{kind}_terms_seen_in_several_histories"] = n_multi
        ctx.log(f"{kind}: replayed {len(behaviours)} call histories ({len(obs)} results, {n_multi} result terms reached by several "
                f"histories): {n_bad} disagreements")
        if n_multi == 0:
            raise tlc.MachineryError("vacuity: no result term was reached through two different histories")


def run_design(ctx, max_calls=5):
    cfg = os.path.join(ctx.tmp, "life_mc.cfg")
    with open(cfg, "w") as f:
        f.write('SPECIFICATION Spec\nCONSTANTS\n  Datasets = {"D1", "D2"}\n  Seeds = {0, 1}\n  MaxCalls = %d\n  FitLeavesCohort = TRUE\n  Script <- Free\n'
                'INVARIANT ResultDependsOnlyOn\nINVARIANT CallerInputsUntouched\nINVARIANT PopAtMode\nPROPERTY ModelUntouched\n'
                'PROPERTY NothingLeftBehind\nPROPERTY SeededRepeatable\nCHECK_DEADLOCK FALSE\n' % max_calls)
    res = tlc.run("MC_ModelLifecycle", cfg, workers=16, timeout=3000)
    tlc.require_ok(res, "ModelLifecycle")
    ctx.add_tlc(f"ModelLifecycle: call histories up to {max_calls} calls, 2 data sets, 2 seeds", res)
    ctx.log(f"TLC ModelLifecycle: {res.distinct} states, violated={res.violated} ({res.wall:.1f}s)")
    if res.violated:
        ctx.violation({"check": "design", "invariant": res.violated[0]}, f"ModelLifecycle.tla violates {res.violated}",
                      replay=res.trace_text[:4000])


def run_history_scenarios(ctx):
    """C11: seeded fit / personalize / simulate repeat bit-identically whatever happened before (same replay, other seed)."""
    run_replay(ctx, "C11", ["logistic_diag_src1"], num=16 if ctx.quick else 120, depth=7)
