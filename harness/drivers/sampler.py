"""Driver for specs/Sampler*.tla: records real sampler calls with from-scratch references and lets TLC validate them."""
from __future__ import annotations

import json
import math
import os
import re
from fractions import Fraction

import numpy as np
import torch

import leaspy.models  # noqa: F401
import leaspy.samplers.gibbs as gibbs_mod
from leaspy.algo.algo_with_samplers import AlgorithmWithSamplersMixin
from leaspy.exceptions import LeaspyInputError
from leaspy.samplers.gibbs import IndividualGibbsSampler
from leaspy.utils.weighted_tensor import WeightedTensor
from leaspy.variables.specs import IndividualLatentVariable, PopulationLatentVariable
from leaspy.variables.state import State

from .. import tlc, zoo
from ..wrap import from_scratch_state, tensors_equal

TIE_REL = 1e-5


def _tv(x):
    return x.weighted_value if isinstance(x, WeightedTensor) else x


def _f(x):
    return float(_tv(x).detach().double().reshape(-1)[0]) if _tv(x).numel() == 1 else None


def blk_name(idx):
    return "all" if idx == () else ",".join(str(i) for i in idx)


class SamplerRecorder:
    """Class-level hook on _initialize_samplers: every sampler created (fit or personalize) gets a recording sample()."""

    def __init__(self, check_reads=True, directed=False, eps=2e-3):
        # directed: the uniform draws are *chosen* just below / just above the reference alpha (the abstract
        # levels "u < alpha" / "u >= alpha" of Sampler.tla made concrete), instead of recorded
        self.directed = directed
        self.eps = eps
        self.toggle = 0
        self.events = []
        self.created = set()
        self._orig_init = None
        self.check_reads = check_reads
        self.n_decisions = 0
        self.n_ties = 0
        self.kinds = {}
        self.factor = {}
        self.configured = None

    def __enter__(self):
        rec = self
        self._orig_init = AlgorithmWithSamplersMixin._initialize_samplers

        def init(algo, state, dataset):
            rec._orig_init(algo, state, dataset)
            for name, smp in algo.samplers.items():
                rec.wrap(smp)
        AlgorithmWithSamplersMixin._initialize_samplers = init
        return self

    def __exit__(self, *a):
        AlgorithmWithSamplersMixin._initialize_samplers = self._orig_init

    # ------------------------------------------------------------------
    def wrap(self, smp):
        rec = self
        orig = smp.sample
        uid = f"{smp.name}#{len(self.created)}"
        self.created.add(uid)
        is_ind = isinstance(smp, IndividualGibbsSampler)
        if is_ind:
            blocks = [str(i) for i in range(smp.n_patients)]
        else:
            blocks = [blk_name(i) for i in np.ndindex(tuple(smp.shape_adapted_std))]
        # window length, target band and factor are the CONFIGURED ones (settings of the run) when known, so that a sampler
        # that does not honour its configuration is not judged by its own attributes
        conf = (self.configured or {}).get("ind" if is_ind else "pop", {})
        lo_f, hi_f = conf.get("band", (smp._mean_acceptation_lower_bound_before_adaptation, smp._mean_acceptation_upper_bound_before_adaptation))
        lo = Fraction(str(lo_f)).limit_denominator(1000)
        hi = Fraction(str(hi_f)).limit_denominator(1000)
        den = lo.denominator * hi.denominator // math.gcd(lo.denominator, hi.denominator)
        self.kinds[uid] = type(smp).__name__
        self.factor[uid] = conf.get("factor", smp._adaptive_std_factor)
        self.events.append({"op": "Create", "name": uid, "kind": "ind" if is_ind else "pop", "blocks": blocks,
                            "L": int(conf.get("L", smp.acceptation_history_length)), "lo": int(lo * den), "hi": int(hi * den), "den": den,
                            "random_order": bool(getattr(smp, "_random_order_dimension", False)) and not is_ind,
                            "cls": type(smp).__name__})

        def sample(state, *, temperature_inv, **kw):
            return rec.record_call(smp, uid, is_ind, blocks, orig, state, temperature_inv, kw)
        smp.sample = sample

    # ------------------------------------------------------------------
    def record_call(self, smp, uid, is_ind, blocks, orig, state, beta, kw):
        log = []
        o_randn, o_rand = torch.randn, torch.rand
        o_put, o_revert = State.put, State.revert
        name = smp.name

        def randn(*a, **k):
            r = o_randn(*a, **k)
            log.append(("randn", r))
            return r

        def rand(*a, **k):
            r = o_rand(*a, **k)
            if rec.directed:
                r = rec.directed_draw(r, log, smp, is_ind, indep, float(beta))
            log.append(("rand", r))
            return r

        def put(st, variable_name, variable_value, *, indices=(), accumulate=False):
            before = st._values.get(variable_name)
            o_put(st, variable_name, variable_value, indices=indices, accumulate=accumulate)
            if st is state:
                log.append(("put", variable_name, variable_value, tuple(indices), accumulate, before, st._values[variable_name]))

        def revert(st, subset=None, **k):
            o_revert(st, subset, **k)
            if st is state:
                log.append(("revert", subset, st._values[name]))

        rec = self
        std_before = smp.std.clone()
        hist_before = smp.acceptation_history.clone()
        indep = from_scratch_state(state)            # independent values at the start of the call (references)
        x_start = state._values[name]
        torch.randn, torch.rand, State.put, State.revert = randn, rand, put, revert
        try:
            out = orig(state, temperature_inv=beta, **kw)
        finally:
            torch.randn, torch.rand, State.put, State.revert = o_randn, o_rand, o_put, o_revert
        self.analyse(smp, uid, is_ind, blocks, state, float(beta), log, std_before, hist_before, indep, x_start)
        return out

    # ------------------------------------------------------------------
    def directed_draw(self, r, log, smp, is_ind, indep, beta):
        """Replace the uniform draw(s) by values at relative distance eps below / above the reference alpha."""
        puts = [e for e in log if e[0] == "put"]
        if not puts:
            return r
        _, vname, change, indices, accumulate, before, after = puts[-1]
        name = smp.name
        f_old, f_new = self.fresh_at(indep, name, before), self.fresh_at(indep, name, after)
        try:
            if not is_ind:
                a0, r0 = self.pop_terms(f_old, name)
                a1, r1 = self.pop_terms(f_new, name)
                ds = [float(a1 - a0) + beta * sum(float(r1[v] - r0[v]) for v in r0)]
            else:
                a0, r0 = self.ind_terms(f_old, name)
                a1, r1 = self.ind_terms(f_new, name)
                ds = ((a1 - a0) + beta * sum((r1[v] - r0[v]) for v in r0)).reshape(-1).tolist()
        except Exception:
            return r
        flat = r.clone().reshape(-1)
        if len(ds) != flat.numel():
            return r
        for i, d in enumerate(ds):
            if d != d:
                continue
            alpha = math.exp(-d) if d > -50 else math.inf
            if d > (110.0 if self.is_single(indep, ("nll_attach", "nll_attach_ind", "nll_regul_ind_sum_ind")) else 750.0):
                # alpha is exactly 0 (underflow): the smallest possible draw, 0, is still not below it
                self.toggle += 1
                if self.toggle % 2:
                    flat[i] = 0.0
                continue
            if alpha < 1e-4:
                continue                      # keep the natural draw (float32 resolution)
            self.toggle += 1
            if alpha >= 1.0:
                flat[i] = 0.999 if self.toggle % 2 else float(flat[i])
            else:
                flat[i] = alpha * (1 - self.eps) if self.toggle % 2 else min(alpha * (1 + self.eps), 0.9999999)
        return flat.reshape(r.shape)

    # ------------------------------------------------------------------
    def fresh_at(self, indep, name, x):
        f = State(indep.dag)
        f._values.update({k: v for k, v in indep._values.items() if v is not None})
        f._values[name] = x
        for ch in indep.dag.sorted_children[name]:
            f._values[ch] = None
        return f

    @staticmethod
    def _get(f, n):
        try:
            return _tv(f[n]).detach().double()
        except LeaspyInputError:
            return None

    def pop_terms(self, f, name):
        dag = f.dag
        reg = {v: self._get(f, f"nll_regul_{v}") for v in dag.sorted_variables_by_type.get(PopulationLatentVariable, {})}
        return self._get(f, "nll_attach"), reg

    def ind_terms(self, f, name):
        dag = f.dag
        att = self._get(f, "nll_attach_ind")
        regs = {}
        tot = f["nll_regul_ind_sum_ind"]
        probs = None
        if tot.ndim > 1:      # mixture model (as built): cluster-responsibility weighting of per-cluster regularities
            probs = torch.nn.Softmax(dim=1)(torch.clamp(-tot.value, -100.0)).double()
        for v in dag.sorted_variables_by_type.get(IndividualLatentVariable, {}):
            if probs is not None and v != name:
                continue   # mixture, as built: only the sampled variable's responsibility-weighted regularity enters D
            r = self._get(f, f"nll_regul_{v}_ind")
            if r is not None and r.ndim == 2 and probs is not None:
                r = (probs * r).sum(dim=1)
            regs[v] = r
        return att, regs

    @staticmethod
    def cmp_class(u, d, single=True):
        """u vs alpha = exp(-d) -> 'lt' | 'ge' | 'tie'.  `single`: the implementation's D (hence alpha) is in single precision."""
        if d != d:
            return "ge"                     # u < nan is False
        # exp(-d) underflows to exactly 0 beyond d ~ 104 in single precision (~745 in double): then nothing, not even
        # u = 0, is below it
        lo, hi = (87.0, 104.5) if single else (708.0, 746.0)
        if d > hi:
            return "ge"
        if d > lo:
            return "tie" if u < 1e-37 else "ge"      # subnormal range of alpha: not judged for tiny draws
        alpha = math.exp(-d) if d > -700 else math.inf
        if 0 < alpha < 1 and abs(u - alpha) <= TIE_REL * alpha:
            return "tie"
        return "lt" if u < alpha else "ge"

    @staticmethod
    def is_single(state, names):
        """True when every term of the implementation's D is held in single precision (the precision of exp(-D))."""
        for n in names:
            try:
                v = state._values.get(n)
                v = v.value if hasattr(v, "value") else v
                if v is not None and v.dtype == torch.float64:
                    return False
            except Exception:  # noqa: BLE001
                pass
        return True

    def reads_ok(self, state, ref):
        if not self.check_reads:
            return True
        for n in state.dag:
            v = state._values[n]
            if v is None or len(state.dag.direct_ancestors[n]) == 0:
                continue
            try:
                r = ref[n]
            except LeaspyInputError:
                return False
            if not tensors_equal(v, r):
                return False
        return True

    # ------------------------------------------------------------------
    def analyse(self, smp, uid, is_ind, blocks, state, beta, log, std_before, hist_before, indep, x_start):
        name = smp.name
        # segment the low-level log into steps (a step starts with the randn/put pair and ends before the next put)
        put_pos = [i for i, e in enumerate(log) if e[0] == "put"]
        steps = []
        prev_end = 0
        for k, p in enumerate(put_pos):
            nxt = put_pos[k + 1] if k + 1 < len(put_pos) else len(log)
            # entries before this put, after the previous step's rand/revert
            pre = [e for e in log[prev_end:p]]
            post_all = log[p + 1:nxt]
            # the next step's randn belongs to the next step: split post at the first randn
            cut = next((i for i, e in enumerate(post_all) if e[0] == "randn"), len(post_all))
            post = post_all[:cut]
            steps.append((pre, log[p], post))
            prev_end = p + 1 + cut
        order = []
        evs = []
        x_cur = x_start
        for pre, put, post in steps:
            _, vname, change, indices, accumulate, before, after = put
            randns = [e[1] for e in pre if e[0] == "randn"]
            rands = [e[1] for e in post if e[0] == "rand"] + [e[1] for e in pre if e[0] == "rand"]
            reverts = [e for e in post if e[0] == "revert"]
            x_old, x_prop = _tv(before), _tv(after)
            f_old = self.fresh_at(indep, name, before)
            f_new = self.fresh_at(indep, name, after)
            if not is_ind:
                idx = indices
                order.append(blk_name(idx))
                z = randns[0] if randns else None
                z_matches = bool(vname == name and accumulate and z is not None and len(randns) == 1
                                 and tensors_equal(_tv(change), std_before[idx] * z))
                delta = (x_prop.double() - x_old.double())
                mask = torch.zeros_like(delta, dtype=torch.bool)
                mask[idx] = True
                outside = bool((delta[~mask] != 0).any()) if (~mask).any() else False
                a0, r0 = self.pop_terms(f_old, name)
                a1, r1 = self.pop_terms(f_new, name)
                u = float(rands[0]) if rands else 0.0
                if a0 is None or a1 is None:
                    # the model cannot evaluate one of the two points (it raises): no decision can be explained by u < exp(-D)
                    d, cmp = float("nan"), "unevaluable"
                else:
                    d = float(a1 - a0) + beta * sum(float(r1[v] - r0[v]) for v in r0)
                    cmp = self.cmp_class(u, d, self.is_single(state, ("nll_attach",) + tuple(f"nll_regul_{v}" for v in r0)))
                accepted = len(reverts) == 0
                x_post = _tv(state._values[name]) if put is steps[-1][1] else None
                post_val = _tv(reverts[-1][2]) if reverts else x_prop
                post_ok = tensors_equal(post_val, x_prop if accepted else x_old) and (not reverts or reverts[-1][1] is None)
                x_cur = after if accepted else before
                evs.append({"op": "Step", "name": uid, "block": blk_name(idx), "n_randn": len(randns), "z_matches": z_matches,
                            "outside_changed": outside, "n_rand": len(rands), "cmp": cmp, "accepted": accepted,
                            "post_ok": bool(post_ok), "reads_ok": True, "u": u, "d": d if d == d else "nan", "beta": beta})
                self.n_decisions += 1
                self.n_ties += cmp == "tie"
                _ = x_post
            else:
                z = randns[0] if randns else None
                bshape = (slice(None),) + (None,) * smp.ndim
                z_matches = bool(vname == name and accumulate and indices == () and z is not None and len(randns) == 1
                                 and tensors_equal(_tv(change), std_before[bshape] * z))
                a0, r0 = self.ind_terms(f_old, name)
                a1, r1 = self.ind_terms(f_new, name)
                dvec = (a1 - a0) + beta * sum((r1[v] - r0[v]) for v in r0)
                us = rands[0].double().reshape(-1) if rands else torch.zeros(len(blocks), dtype=torch.double)
                single = self.is_single(state, ("nll_attach_ind", f"nll_regul_{name}_ind", "nll_regul_ind_sum_ind"))
                cmps = [self.cmp_class(float(us[i]), float(dvec[i]), single) for i in range(len(blocks))]
                if reverts and reverts[-1][1] is not None:
                    acc = (~reverts[-1][1].to(torch.bool)).reshape(-1).tolist()
                else:
                    acc = [not reverts] * len(blocks)     # full revert (subset None) = everybody rejected
                x_post = _tv(reverts[-1][2]) if reverts else x_prop
                accm = torch.tensor(acc)
                post_ok = bool(x_post.shape == x_prop.shape and tensors_equal(x_post[accm], x_prop[accm])
                               and tensors_equal(x_post[~accm], x_old[~accm]))
                evs.append({"op": "StepInd", "name": uid, "n_randn": len(randns), "z_matches": z_matches,
                            "n_rand": len(rands), "cmps": cmps, "accepted": [bool(a) for a in acc], "post_ok": post_ok,
                            "reads_ok": True, "beta": beta,
                            "us": [round(float(x), 7) for x in us], "ds": [float(x) if float(x) == float(x) else "nan" for x in dvec]})
                self.n_decisions += len(blocks)
                self.n_ties += sum(c == "tie" for c in cmps)
                order = list(blocks)
        # reads after the call: every cached node equals the from-scratch evaluation at the final value
        ref = self.fresh_at(indep, name, state._values[name])
        ok_reads = self.reads_ok(state, ref)
        if evs:
            evs[-1]["reads_ok"] = bool(ok_reads)
        self.events.append({"op": "Begin", "name": uid, "order": order, "beta": beta})
        self.events += evs
        # window / counter / scale adaptation
        last = smp.acceptation_history[-1]
        acc_row = [bool(x) for x in last.reshape(-1).tolist()]
        window_ok = bool(torch.equal(smp.acceptation_history[:-1], hist_before[1:])) and \
            smp.acceptation_history.shape == hist_before.shape
        f = self.factor[uid]
        down = std_before.clone()
        down *= 1 - f
        up = std_before.clone()
        up *= 1 + f
        dirs = []
        sa, sb = smp.std.reshape(-1), std_before.reshape(-1)
        for i in range(sa.numel()):
            if sa[i] == sb[i]:
                dirs.append("same")
            elif sa[i] == down.reshape(-1)[i]:
                dirs.append("down")
            elif sa[i] == up.reshape(-1)[i]:
                dirs.append("up")
            else:
                dirs.append("other")
            if not (torch.isfinite(sa[i]) and sa[i] > 0):
                dirs[-1] = "nonpositive"
        self.events.append({"op": "End", "name": uid, "acc": acc_row, "counter": int(smp._counter), "dirs": dirs,
                            "window_ok": window_ok})


# ----------------------------------------------------------------------------------------------
def validate(events, outdir, tag):
    os.makedirs(outdir, exist_ok=True)
    path = os.path.join(outdir, f"{tag}.ndjson")
    with open(path, "w") as f:
        for e in events:
            f.write(json.dumps(e) + "\n")
    res = tlc.run("SamplerTrace", "SamplerTrace.cfg", workers=1, env={"TRACE_FILE": path}, timeout=1800)
    m = re.search(r'<<"REJECTED-AT", (\d+), (\d+)>>', res.out)
    if m:
        return False, int(m.group(1)) - 1, res
    if res.error_text:
        raise tlc.MachineryError(f"SamplerTrace validation {tag} failed to run: {res.error_text[:1500]}")
    return True, len(events), res


def record_fit(kind, seed, n_iter, sampler_pop="Gibbs", annealing=False, n_ind=6, hist_len=3, perso=None, extreme=False,
               directed=False):
    """A real fit (and optionally an MCMC personalization / an extreme-state scenario) under the sampler recorder."""
    rec = SamplerRecorder(directed=directed)
    # non-default, different adaptation settings for the two sampler families
    conf = {"pop": {"L": hist_len, "band": (0.2, 0.4), "factor": 0.25}, "ind": {"L": hist_len + 1, "band": (0.3, 0.5), "factor": 0.3}}
    rec.configured = conf if sampler_pop != "Metropolis-Hastings" else {"ind": conf["ind"]}
    model, data, df = zoo.make(kind, n_ind=n_ind, seed=seed % 7)
    kw = dict(n_iter=n_iter, seed=seed, progress_bar=False, sampler_pop=sampler_pop,
              sampler_pop_params=dict(acceptation_history_length=conf["pop"]["L"], random_order_dimension=True,
                                      mean_acceptation_rate_target_bounds=list(conf["pop"]["band"]), adaptive_std_factor=conf["pop"]["factor"]),
              sampler_ind_params=dict(acceptation_history_length=conf["ind"]["L"], mean_acceptation_rate_target_bounds=list(conf["ind"]["band"]),
                                      adaptive_std_factor=conf["ind"]["factor"]))
    if annealing:
        kw["annealing"] = dict(do_annealing=True, initial_temperature=5.0, n_plateau=3, n_iter=max(2, n_iter // 2), n_iter_frac=None)
    import warnings
    with warnings.catch_warnings():
        warnings.simplefilter("ignore")
        with rec:
            model.fit(data, "mcmc_saem", **kw)
            # samplers created from here on are not those of the configured fit: they are judged with their own settings
            rec.configured = None
            if extreme:
                extreme_scenario(rec, model, seed)
            if perso:
                model.personalize(data, perso, n_iter=4, seed=seed, progress_bar=False)
    return rec


def extreme_scenario(rec, model, seed):
    """Non-finite evaluations: population samplers with a huge proposal scale and on a state whose attachment is NaN."""
    from leaspy.samplers import sampler_factory
    state = model.state.clone()
    torch.manual_seed(seed)
    var = "log_v0" if "log_v0" in state.dag else next(iter(state.dag.sorted_variables_by_type[PopulationLatentVariable]))
    shape = tuple(state[var].shape)
    for kind_name, scale in (("Gibbs", 1e6), ("FastGibbs", 1e6), ("Metropolis-Hastings", 1e6)):
        smp = sampler_factory(kind_name, PopulationLatentVariable, name=var, shape=shape, scale=scale,
                              acceptation_history_length=2)
        rec.wrap(smp)
        for _ in range(2):
            smp.sample(state, temperature_inv=1.0)
    # proposals that stay finite but are prohibitive (D in the hundreds / thousands: alpha underflows to 0)
    for kind_name in ("Gibbs", "FastGibbs", "Metropolis-Hastings"):
        smp = sampler_factory(kind_name, PopulationLatentVariable, name=var, shape=shape, scale=2.5, acceptation_history_length=2)
        rec.wrap(smp)
        for _ in range(3):
            smp.sample(state, temperature_inv=1.0)
    # proposals on which the model itself raises (exp(log_g) overflows single precision: the metric of a model with sources is
    # not a number any more): the step aborts with the model's error - no decision is taken, hence none without a draw
    if "log_g" in state.dag and getattr(model, "source_dimension", 0):
        from leaspy.exceptions import LeaspyModelInputError
        gshape = tuple(state["log_g"].shape)
        for kind_name in ("Gibbs", "FastGibbs", "Metropolis-Hastings"):
            smp = sampler_factory(kind_name, PopulationLatentVariable, name="log_g", shape=gshape, scale=1.0, acceptation_history_length=2)
            smp.std = torch.full_like(smp.std, 80.0)
            rec.wrap(smp)
            for _ in range(5):
                st4 = state.clone()
                try:
                    smp.sample(st4, temperature_inv=1.0)
                except LeaspyModelInputError:
                    pass
    # an individual whose proposals evaluate to NaN from a finite current state: a huge acceleration exactly at a visit
    # (exp(xi) (t - tau) = big * 0 is finite, inf * 0 is not)
    if "xi" in state.dag and "tau" in state.dag and "t" in state.dag:
        st2 = state.clone()
        tt = st2["t"]
        t00 = float((tt.value if hasattr(tt, "value") else tt)[0, 0])
        with st2.auto_fork(None):
            xi, tau = st2["xi"].clone(), st2["tau"].clone()
            xi[0, 0], tau[0, 0] = 88.5, t00
            st2["xi"], st2["tau"] = xi, tau
        n_ind = st2["xi"].shape[0]
        smp = sampler_factory("Gibbs", IndividualLatentVariable, name="xi", shape=(1,), n_patients=n_ind, scale=1.0, acceptation_history_length=2)
        rec.wrap(smp)
        for _ in range(10):
            with st2.auto_fork(None):
                xi = st2["xi"].clone()
                xi[0, 0] = 88.5                 # (back to the edge of the single-precision range before every call)
                st2["xi"] = xi
            smp.sample(st2, temperature_inv=0.5)
    # a cohort fitted perfectly by the current values and observed almost without noise: every proposal of every individual is
    # prohibitive (all acceptance ratios underflow to 0) - a draw is still consumed for every decision
    if "tau" in state.dag and "y" in state.dag and "noise_std" in state.dag and "model" in state.dag:
        from leaspy.utils.weighted_tensor import WeightedTensor
        st3 = state.clone()
        try:
            with st3.auto_fork(None):
                y = st3["y"]
                mdl = st3["model"]
                mv = (mdl.value if hasattr(mdl, "value") else mdl).detach().clone()
                st3["y"] = WeightedTensor(torch.where(y.weight != 0, mv, torch.zeros_like(mv)), y.weight)
                st3["noise_std"] = torch.full_like(st3["noise_std"], 1e-4)
            n_ind = st3["tau"].shape[0]
            smp = sampler_factory("Gibbs", IndividualLatentVariable, name="tau", shape=(1,), n_patients=n_ind, scale=2.0, acceptation_history_length=2)
            rec.wrap(smp)
            for _ in range(3):
                smp.sample(st3, temperature_inv=1.0)
        except LeaspyInputError:
            pass                     # (models whose observations are not settable this way)
    with state.auto_fork(None):
        state[var] = state[var] + 95.0          # exp overflow: the attachment is not finite any more
    smp = sampler_factory("Gibbs", PopulationLatentVariable, name=var, shape=shape, scale=state[var].abs(),
                          acceptation_history_length=2)
    rec.wrap(smp)
    smp.sample(state, temperature_inv=0.5)


# ----------------------------------------------------------------------------------------------
MC_CONFIGS = ["gibbs", "mh", "ind", "gibbs3"]


def run_design(ctx, props_note=""):
    for c in MC_CONFIGS:
        res = tlc.run("MC_Sampler", f"MC_Sampler_{c}.cfg", workers=16, timeout=3000, coverage=(c in ("gibbs", "ind")))
        tlc.require_ok(res, f"MC_Sampler_{c}")
        ctx.add_tlc(f"Sampler {c}", res)
        ctx.log(f"TLC MC_Sampler_{c}: {res.distinct} states, violated={res.violated} ({res.wall:.1f}s)")
        if res.violated:
            ctx.violation({"check": "design", "config": c, "invariant": res.violated[0]}, f"Sampler.tla violates {res.violated}",
                          replay=res.trace_text[:4000])
        if res.coverage:
            need = ["Begin", "End"] + (["ProposePop", "EvalPop", "DrawPop", "DecidePop"] if c == "gibbs" else
                                       ["ProposeInd", "EvalInd", "DrawInd", "DecideInd"])
            missing = [a for a in need if res.coverage.get(a, (0, 0))[1] == 0]
            if missing:
                raise tlc.MachineryError(f"vacuity: actions never taken in MC_Sampler_{c}: {missing}")


def explain(e):
    """Which clause of the trace specification an event fails (for the violation message / signature)."""
    bad = []
    if e["op"] in ("Step", "StepInd"):
        if e["n_randn"] != 1:
            bad.append(f"n_randn={e['n_randn']}")
        if not e["z_matches"]:
            bad.append("proposal != std*z on the block")
        if e.get("outside_changed"):
            bad.append("coordinates outside the block changed")
        if e["n_rand"] != 1:
            bad.append(f"uniform draws={e['n_rand']}")
        pairs = [(e["cmp"], e["accepted"])] if e["op"] == "Step" else list(zip(e["cmps"], e["accepted"]))
        if any(c == "unevaluable" for c, _ in pairs):
            bad.append("a decision was taken on a proposal the model cannot evaluate")
        if any(c != "tie" and (a != (c == "lt")) for c, a in pairs):
            bad.append("decision != (u < exp(-D))")
        if not e["post_ok"]:
            bad.append("value after decision is neither snapshot (rejected) nor proposal (accepted)")
        if not e["reads_ok"]:
            bad.append("cached values differ from from-scratch evaluation after the call")
    elif e["op"] == "End":
        bad.append("window / counter / scale adaptation differs from SamplerCore")
    elif e["op"] == "Begin":
        bad.append("blocks visited are not a permutation of the blocks (or not the canonical order)")
    return bad or ["protocol order"]


PLAN_QUICK = [("logistic_diag_src1", "Gibbs", False, "mode_posterior", True),
              ("linear_scalar_src1", "FastGibbs", True, None, False),
              ("joint_src1", "Metropolis-Hastings", True, "mean_posterior", False),
              ("mixture_2", "Gibbs", False, None, False),
              ("shared_speed_src1", "Metropolis-Hastings", True, None, True),
              ("logistic_binary", "FastGibbs", True, None, False)]


def run_traces(ctx, plan, n_iter, seeds, selftest=True):
    first = None
    for seed in seeds:
        for kind, sp, ann, perso, ext in plan:
          for directed in (False, True):
              rec = record_fit(kind, seed=seed, n_iter=n_iter, sampler_pop=sp, annealing=ann, perso=perso, extreme=ext,
                               directed=directed)
              ok, k, res = validate(rec.events, os.path.join(ctx.tmp, "smp"), f"{kind}_{sp[:3]}_{seed}_{int(directed)}")
              ctx.traces += 1
              ctx.states += res.distinct
              ctx.transitions += res.generated
              ctx.case(key=(kind, sp, ann, seed, directed), n=rec.n_decisions)
              ctx.extra["decisions_checked"] = ctx.extra.get("decisions_checked", 0) + rec.n_decisions
              ctx.extra["ties_skipped"] = ctx.extra.get("ties_skipped", 0) + rec.n_ties
              ctx.log(f"{kind} / {sp} / annealing={ann} / perso={perso} / extreme={ext} / directed={directed} seed={seed}: {len(rec.events)} events, "
                      f"{rec.n_decisions} decisions -> {'accepted' if ok else f'REJECTED at event {k}'} ({res.wall:.1f}s)")
              if ok and first is None:
                  first = rec.events
              if len(ctx.samples) < 4:
                  ctx.sample([e for e in rec.events if e["op"] in ("Step", "StepInd")][:2])
              if not ok:
                  e = rec.events[k]
                  why = explain(e)
                  ctx.violation({"check": "sampler_trace", "event_op": e["op"], "sampler": rec.kinds.get(e.get("name"), "?"),
                                 "why": why[0]},
                                f"sampler call in fit of {kind} ({sp}) is not explainable by SamplerTrace.tla: {why}; event {e}",
                                replay={"kind": kind, "sampler_pop": sp, "annealing": ann, "seed": seed, "event": e, "why": why})
    if selftest and first:
        import copy
        idx = next(i for i, e in enumerate(first) if e["op"] == "Step" and e["cmp"] != "tie")
        bad = copy.deepcopy(first)
        bad[idx]["accepted"] = not bad[idx]["accepted"]
        ok, k, res = validate(bad, os.path.join(ctx.tmp, "smp"), "selftest1")
        if ok or k != idx:
            raise tlc.MachineryError(f"binding self-test failed: flipped decision accepted={ok} at {k} (expected {idx})")
        idx2 = next(i for i, e in enumerate(first) if e["op"] == "StepInd")
        bad = copy.deepcopy(first)
        bad[idx2]["n_rand"] = 0
        ok, k, res = validate(bad, os.path.join(ctx.tmp, "smp"), "selftest2")
        if ok or k != idx2:
            raise tlc.MachineryError("binding self-test failed: missing uniform draw accepted")
        ctx.log(f"self-test: flipped decision (event {idx}) and missing draw (event {idx2}) -> rejected (as required)")


def run_std_envelope(ctx):
    """C19, proposal scales: Sampler.tla StdOnlyAtMultiples / StdOneFactor / StdOnlyOutOfBand + recorded adaptation."""
    run_design(ctx)
    plan = [("logistic_scalar_src1", "Gibbs", False, None, False), ("linear_diag_src1", "FastGibbs", True, None, False)]
    run_traces(ctx, plan, n_iter=8 if ctx.quick else 30, seeds=[ctx.seed + 3] if ctx.quick else [ctx.seed + 3, ctx.seed + 4],
               selftest=False)
