"""Driver for specs/Masking.tla: real WeightedTensor operations on abstract vectors; twin-dataset scenarios on real models."""
from __future__ import annotations

import copy
import math
import warnings

import numpy as np
import torch

import leaspy.models  # noqa: F401
from leaspy.io.data.dataset import Dataset
from leaspy.utils.weighted_tensor import WeightedTensor

from .. import zoo

NAN, PINF, HUGE = 1000000, 1000001, 1000002
CONC = {NAN: float("nan"), PINF: float("inf"), HUGE: 1e30}


def conc(x):
    return CONC.get(x, float(x))


def absv(x):
    x = float(x)
    if x != x:
        return NAN
    if x == float("inf"):
        return PINF
    if abs(x) >= 1e29:
        return HUGE
    return int(round(x))


def run_vector(v, w, c, dtype):
    wt = torch.tensor(w, dtype={"bool": torch.bool, "int": torch.int64, "float": torch.float32}[dtype])
    t = WeightedTensor(torch.tensor([conc(x) for x in v], dtype=torch.float32), wt)
    rec = {"type": "vector", "v": v, "w": w, "c": c, "weight_dtype": dtype}
    rec["filled"] = [absv(x) for x in t.filled(5).tolist()]
    rec["weighted_value"] = [absv(x) for x in t.weighted_value.tolist()]
    s, n = t.wsum(fill_value=7)
    rec["wsum"], rec["wcount"] = absv(s), int(n)
    p = t * torch.tensor([float(x) for x in c])
    rec["prod_weighted"] = [absv(x) for x in p.weighted_value.tolist()]
    rec["prod_weight"] = [int(x) for x in p.weight.tolist()]
    return rec


def vector_cases():
    fin, sent = [0, 1, 3], [NAN, PINF, HUGE, 3]
    out = []
    import itertools
    for w in itertools.product([0, 1], repeat=3):
        choices = [fin if wi else sent for wi in w]
        for v in itertools.product(*choices):
            for c in ([1, 2, 1], [2, 2, 3]):
                for dtype in ("bool", "int", "float"):
                    out.append((list(v), list(w), c, dtype))
    return out


# ----------------------------------------------------------------------------------------------
def twin_of(ds: Dataset, fill, tfill, extra_pad):
    tw = copy.deepcopy(ds)
    vals, mask, tp = tw.values.clone(), tw.mask.clone(), tw.timepoints.clone()
    vals[mask == 0] = fill
    # only true padding (beyond each individual's visits) is overwritten in the ages: the age of a real visit whose
    # values are all missing is genuine information (e.g. first-visit age used by the joint initialisation)
    for i, nv in enumerate(tw.n_visits_per_individual):
        tp[i, nv:] = tfill
    if extra_pad:
        n, _, f = vals.shape
        vals = torch.cat([vals, torch.full((n, extra_pad, f), float(fill))], dim=1)
        mask = torch.cat([mask, torch.zeros((n, extra_pad, f))], dim=1)
        tp = torch.cat([tp, torch.full((n, extra_pad), float(tfill))], dim=1)
        tw.n_visits_max = tw.n_visits_max + extra_pad
    tw.values, tw.mask, tw.timepoints = vals, mask, tp
    return tw


def _eq(a, b, exact):
    a = a.weighted_value if isinstance(a, WeightedTensor) else a
    b = b.weighted_value if isinstance(b, WeightedTensor) else b
    a, b = torch.as_tensor(a).double(), torch.as_tensor(b).double()
    if a.shape != b.shape:
        # padding differs: compare on the common leading block, the rest of the longer one must be zero
        if a.ndim == b.ndim and a.ndim >= 2 and a.shape[0] == b.shape[0] and a.shape[2:] == b.shape[2:]:
            k = min(a.shape[1], b.shape[1])
            rest = (a if a.shape[1] > k else b)[:, k:]
            return bool((rest == 0).all()) and _eq(a[:, :k], b[:, :k], exact)
        return False
    if exact:
        return bool(torch.equal(torch.nan_to_num(a, nan=-9e99), torch.nan_to_num(b, nan=-9e99)))
    return bool(torch.allclose(a, b, rtol=1e-5, atol=1e-7, equal_nan=True))


def observables(kind, ds, seed, n_iter=6):
    """Everything the property lists, computed on one Dataset."""
    out = {}
    with warnings.catch_warnings():
        warnings.simplefilter("ignore")
        model = zoo.CONFIGS[kind][0]()
        model.initialize(ds)
        out["init_params"] = {k: np.asarray(v).copy() for k, v in model.parameters.items()}
        st = model.state.clone(disable_auto_fork=True)
        model.put_data_variables(st, ds)
        st.put_individual_latent_variables("mode", n_individuals=ds.n_individuals)
        out["attach"] = st["nll_attach_ind"]
        out["model_at_visits"] = (st["model"] * ds.mask if not isinstance(st["model"], WeightedTensor) else st["model"].weighted_value * ds.mask)
        # the attachment is the sum, over OBSERVED entries only, of the entry-wise negative log-density (Gaussian with the
        # current noise level / Bernoulli), whatever sits at the other entries
        out["attach_is_observed_sum"] = _attach_reference_ok(model, st)
        stats = model.compute_sufficient_statistics(st)
        out["stats"] = {k: (v.weighted_value if isinstance(v, WeightedTensor) else v) for k, v in stats.items()}
        out["counts"] = [st[k] for k in ("n_obs", "n_obs_per_ft") if k in st.dag] + [torch.tensor(ds.n_observations)]
        model.update_parameters(st, stats, burn_in=True)
        y = st["y"]
        res2 = ((y.value - (st["model"].value if isinstance(st["model"], WeightedTensor) else st["model"])) ** 2).double()
        res2 = torch.where(y.weight.bool(), res2, torch.zeros_like(res2))
        if "noise_std" in model.parameters:
            ns = st["noise_std"].double().reshape(-1)
            if ns.numel() == 1:
                ref = (res2.sum() / y.weight.sum()).sqrt().reshape(1)
            else:
                ref = (res2.sum(dim=(0, 1)) / y.weight.double().sum(dim=(0, 1))).sqrt()
            out["noise_ok"] = bool(torch.allclose(ns, ref, rtol=2e-4, atol=1e-6))
        else:
            out["noise_ok"] = True
        m2 = zoo.CONFIGS[kind][0]()
        m2.fit(ds, "mcmc_saem", n_iter=n_iter, n_burn_in_iter=2, n_burn_in_iter_frac=None, seed=seed, progress_bar=False)
        out["params"] = {k: np.asarray(v).copy() for k, v in m2.parameters.items()}
        ip = m2.personalize(ds, "scipy_minimize", seed=seed, progress_bar=False).to_dataframe()
        ip2 = m2.personalize(ds, "mean_posterior", n_iter=4, seed=seed, progress_bar=False).to_dataframe()
        out["perso"] = np.concatenate([ip.values.reshape(-1), ip2.values.reshape(-1)])
    return out


def _attach_reference_ok(model, st):
    y = st["y"]
    mdl = st["model"]
    mv = (mdl.value if isinstance(mdl, WeightedTensor) else mdl).double()
    obs = y.weight.bool() if y.weight is not None else torch.ones_like(y.value, dtype=torch.bool)
    yv = torch.where(obs, y.value.double(), torch.zeros_like(mv))
    key = "nll_attach_y_ind" if "nll_attach_y_ind" in st.dag else "nll_attach_ind"
    got = st[key]
    got = (got.value if isinstance(got, WeightedTensor) else got).double().reshape(-1)
    if "noise_std" in st.dag:
        ns = st["noise_std"].double().reshape(-1)
        sig = ns if ns.numel() > 1 else ns.expand(mv.shape[-1])
        ent = 0.5 * ((yv - mv) / sig) ** 2 + torch.log(sig) + 0.5 * math.log(2 * math.pi)
    else:
        p = mv.clamp(1e-12, 1 - 1e-7)
        ent = -(yv * torch.log(p) + (1 - yv) * torch.log(1 - p))
    ref = torch.where(obs, ent, torch.zeros_like(ent)).sum(dim=(1, 2))
    return bool(torch.allclose(got, ref, rtol=2e-4, atol=1e-3))


def run_scenario(kind, seed, fill, tfill, extra_pad, base_cache):
    rec = {"type": "scenario", "kind": kind, "fill": repr(fill), "tfill": repr(tfill), "extra_pad": extra_pad,
           "v": [], "w": [], "c": [], "weight_dtype": "-"}
    flags = dict(attach_equal=False, stats_equal=False, counts_equal=False, params_equal=False, traj_equal=False,
                 perso_equal=False, noise_is_observed_rmse=False, attach_is_observed_sum=False, all_finite=False)
    rec.update(flags)
    try:
        if (kind, seed) not in base_cache:
            _, data, df = zoo.make(kind, n_ind=6, seed=seed, missing=0.25)
            ds = Dataset(data)
            base_cache[(kind, seed)] = (ds, observables(kind, ds, seed))
        ds, base = base_cache[(kind, seed)]
        tw = observables(kind, twin_of(ds, fill, tfill, extra_pad), seed)
        exact = extra_pad == 0
        rec["attach_equal"] = _eq(base["attach"], tw["attach"], exact)
        rec["stats_equal"] = set(base["stats"]) == set(tw["stats"]) and all(_eq(base["stats"][k], tw["stats"][k], exact) for k in base["stats"])
        rec["counts_equal"] = all(_eq(a, b, True) for a, b in zip(base["counts"], tw["counts"]))
        rec["params_equal"] = all(_eq(torch.as_tensor(base["params"][k]), torch.as_tensor(tw["params"][k]), exact) for k in base["params"]) \
            and all(_eq(torch.as_tensor(base["init_params"][k]), torch.as_tensor(tw["init_params"][k]), exact) for k in base["init_params"])
        rec["traj_equal"] = _eq(base["model_at_visits"], tw["model_at_visits"], exact)
        # with a different amount of padding the parameters may differ by an ulp (reduction length), which the
        # optimiser amplifies: personalised values are then compared to 1e-2 absolute (measured: 2e-3)
        rec["perso_equal"] = _eq(torch.as_tensor(base["perso"]), torch.as_tensor(tw["perso"]), True) if exact else \
            bool(np.allclose(base["perso"], tw["perso"], rtol=1e-3, atol=1e-2))
        rec["noise_is_observed_rmse"] = bool(base["noise_ok"] and tw["noise_ok"])
        rec["attach_is_observed_sum"] = bool(base["attach_is_observed_sum"] and tw["attach_is_observed_sum"])
        fin = [tw["attach"]] + list(tw["stats"].values()) + [torch.as_tensor(v) for v in tw["params"].values()] + [torch.as_tensor(tw["perso"])]
        rec["all_finite"] = all(bool(torch.isfinite(torch.as_tensor(x).double()).all()) for x in fin)
        rec["status"] = "ok"
    except Exception as e:  # noqa: BLE001
        rec["status"] = f"{type(e).__name__}: {str(e)[:120]}"
    return rec


# ----------------------------------------------------------------------------------------------
# WTAlgebra.tla: operators of WeightedTensor on enumerated cases
import operator as _op

_PY = {"add": lambda x, y: x + y, "radd": lambda x, y: y + x, "sub": lambda x, y: x - y, "rsub": lambda x, y: y - x,
       "mul": lambda x, y: x * y, "rmul": lambda x, y: y * x, "div": lambda x, y: x / y, "rdiv": lambda x, y: y / x,
       "lt": _op.lt, "le": _op.le, "eq": _op.eq, "ne": _op.ne, "gt": _op.gt, "ge": _op.ge,
       "neg": lambda x, y: -x, "abs": lambda x, y: abs(x), "sq": lambda x, y: x ** 2}


def _rat(value, den, tol=1e-5):
    v = float(value)
    if v != v or v in (float("inf"), float("-inf")) or den == 0:
        return {"num": 0, "den": int(den), "close": False}
    num = int(round(v * den))
    return {"num": num, "den": int(den), "close": bool(abs(v * den - num) <= tol * max(1.0, abs(v * den)))}


def run_algebra_case(case):
    """case: dict with a, w, op, kind, b, expv (rationals as [num, den]) from the TLC dump.  `x (op) operand` is written with the
    Python operators, so that the reflected methods are reached the way users reach them (operand on the left)."""
    a, w, opn, kind, b = [int(x) for x in case["a"]], [int(x) for x in case["w"]], str(case["op"]), str(case["kind"]), [int(x) for x in case["b"]]
    expv = [[int(x) for x in e] for e in case["expv"]]
    rec = {"a": a, "w": w, "op": opn, "kind": kind, "b": b, "key": repr((a, w, opn, kind, b))}
    zero = {"num": 0, "den": 0, "close": False}
    rec.update(outcome="ok", weights=[0, 0], wcount=-1, wsum=zero, wsum_own_ok=False, values=[zero, zero], operands_untouched=False)
    av = torch.tensor([conc(x) for x in a], dtype=torch.float32)
    wt = torch.tensor([bool(x) for x in w])
    x = WeightedTensor(av.clone(), wt.clone())
    bv = torch.tensor([float(v) for v in b])
    if kind == "number":
        other = float(b[0])
    elif kind == "tensor":
        other = bv.clone()
    elif kind == "matrix":
        other = bv.clone().repeat(2, 1)          # shape (2, 2): the weighted vector (and its weights) is broadcast along the rows
    elif kind == "wt_none_matrix":
        other = WeightedTensor(bv.clone().repeat(2, 1))
    elif kind == "wt_same":
        other = WeightedTensor(bv.clone(), wt.clone())
    elif kind == "wt_none":
        other = WeightedTensor(bv.clone())
    else:
        other = WeightedTensor(bv.clone(), ~wt)
    try:
        r = _PY[opn](x, other)
    except NotImplementedError:
        rec["outcome"] = "refused"
        return rec
    except Exception as e:  # noqa: BLE001
        rec["outcome"] = f"{type(e).__name__}: {str(e)[:100]}"
        return rec
    if not isinstance(r, WeightedTensor) or r.weight is None:
        rec["outcome"] = "weights_lost"
        return rec
    if kind in ("matrix", "wt_none_matrix"):
        # every row of the result is the vector case: same weights, same values
        if tuple(r.value.shape) != (2, 2) or tuple(r.weight.shape) != (2, 2) or not bool(torch.equal(r.weight[0], r.weight[1])):
            rec["outcome"] = f"broadcast_shapes value {tuple(r.value.shape)} weight {tuple(r.weight.shape)}"
            return rec
        rows_same = all((not w[i]) or bool(r.value[0, i] == r.value[1, i]) for i in range(2))
        if not rows_same:
            rec["outcome"] = "broadcast_rows_differ"
            return rec
        rec["weights"] = [int(bool(v)) for v in r.weight[0].tolist()]
        val = r.value[0].reshape(-1).double()
    else:
        rec["weights"] = [int(bool(v)) for v in r.weight.reshape(-1).tolist()]
        val = r.value.reshape(-1).double()
    rec["values"] = [_rat(val[i], expv[i][1]) if w[i] else zero for i in range(2)]
    if r.value.dtype == torch.bool:      # comparisons: sum the truth values
        r = WeightedTensor(r.value.float(), r.weight)
    s, n = r.wsum()
    rec["wcount"] = int(n)
    # the aggregate of the result sees its observed entries only (whatever the arithmetic made of them)
    own = sum(float(val[i]) for i in range(2) if w[i]) * (2 if kind in ("matrix", "wt_none_matrix") else 1)
    rec["wsum_own_ok"] = bool(abs(float(s) - own) <= 1e-5 * max(1.0, abs(own)))
    den = 1
    for i in range(2):
        if w[i]:
            den *= expv[i][1]
    rec["wsum"] = _rat(s, den if sum(w) == 2 else (expv[w.index(1)][1] if sum(w) == 1 else 1))
    same = lambda p, q: bool(torch.equal(torch.nan_to_num(p, nan=-7.0, posinf=-8.0), torch.nan_to_num(q, nan=-7.0, posinf=-8.0)))  # noqa: E731
    rec["operands_untouched"] = same(x.value, av) and bool(torch.equal(x.weight, wt)) and (
        not isinstance(other, (torch.Tensor, WeightedTensor)) or same(other.value if isinstance(other, WeightedTensor) else other,
                                                                      bv if kind not in ("matrix", "wt_none_matrix") else bv.repeat(2, 1)))
    return rec
