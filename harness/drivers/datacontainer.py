"""Driver for specs/DataContainer.tla: performs TLC-enumerated chains of selections on a real Data object."""
from __future__ import annotations

import numpy as np
import pandas as pd

import leaspy.models  # noqa: F401
from leaspy.io.data import Data
from leaspy.io.data.dataset import Dataset

BASE = ["s10", "s2", "b", "a"]


def base_table():
    rows = []
    rng = np.random.RandomState(5)
    for k, i in enumerate(BASE):
        for v in range(2 + k % 2):
            rows.append({"ID": i, "TIME": 60.0 + 3 * k + 1.5 * v, "Y0": round(float(rng.rand()), 3), "Y1": round(float(rng.rand()), 3)})
    return pd.DataFrame(rows)


def op_of(o):
    o = list(o)
    if o[0] == "slice":
        return {"op": "slice", "lo": int(o[1]), "hi": int(o[2]), "st": int(o[3])}
    if o[0] in ("rev", "long"):
        return {"op": o[0]}
    return {"op": o[0], "arg": [int(x) if o[0] == "ints" else str(x) for x in o[1]]}


def apply(data, o):
    if o["op"] == "slice":
        return data[o["lo"]:o["hi"]:o["st"]]
    if o["op"] == "rev":
        return data[::-1]
    if o["op"] == "long":
        return data.extract_longitudinal_only()
    return data[list(o["arg"])]


def observe(data, df0):
    s = {}
    s["iter"] = [str(ind.idx) for ind in data]
    s["n"] = int(data.n_individuals)
    s["by_int"] = [str(data[i].idx) for i in range(data.n_individuals)]
    s["by_id_ok"] = all(str(data[i].idx) == i for i in s["iter"])
    s["members"] = [i for i in BASE if i in data]
    df = data.to_dataframe()
    s["table"] = [str(x) for x in pd.unique(df["ID"])]
    exp = pd.concat([df0[df0["ID"] == i] for i in s["table"]]).reset_index(drop=True) if s["table"] else df0.iloc[:0]
    got = df[["ID", "TIME", "Y0", "Y1"]].reset_index(drop=True)
    s["rows_ok"] = bool(len(got) == len(exp) and (got["ID"].astype(str).values == exp["ID"].values).all()
                        and np.allclose(got[["TIME", "Y0", "Y1"]].values.astype(float), exp[["TIME", "Y0", "Y1"]].values, rtol=0, atol=1e-9)
                        and data.n_visits == len(exp))
    s["dataset"] = [str(i) for i in Dataset(data).indices]
    return s


def run_case(case):
    ops = [op_of(o) for o in case["ops"]]
    rec = {"ops": ops, "key": repr(ops), "status": "ok", "steps": []}
    df0 = base_table()
    try:
        data = Data.from_dataframe(df0)
        for o in ops:
            data = apply(data, o)
            rec["steps"].append(observe(data, df0))
    except Exception as e:  # noqa: BLE001 - a valid selection raised: a verdict
        rec["status"] = f"{type(e).__name__}: {str(e)[:150]}"
    return rec
