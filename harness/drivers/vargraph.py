"""Driver for specs/VarGraph.tla: runs the real VariablesDAG on declarations and lets TLC compare with Build(par)."""
from __future__ import annotations

import itertools
import json
import os
import random
import re

import leaspy.models  # noqa: F401
from leaspy.exceptions import LeaspyInputError
from leaspy.variables.dag import VariablesDAG
from leaspy.variables.specs import IndepVariable

from .. import tlc


def _pool(n):
    """n variable names in Python string order, full of names that differ only by case (the order of the
    specification is the order of Python's default string comparison)."""
    names = []
    k = 0
    while len(names) < n:
        stem = chr(ord("a") + k % 26) + (str(k // 26) if k >= 26 else "")
        for v in (stem.upper() + stem.upper(), stem.upper() + stem, stem + stem.upper(), stem + stem):
            names.append(v + "_x")
        k += 1
    return sorted(names[:n])


_POOLS = {}


def name(i, n):
    if i == 0:
        return "zz_unknown"
    if n not in _POOLS:
        _POOLS[n] = _pool(n)
    return _POOLS[n][i - 1]


def _zero(*args):
    return 0


def _custom_kind():
    """A variable kind defined by the user through the documented extension point (VariableInterface: `compute` and
    `get_ancestors_names`): a variable computed from a given set of other variables."""
    from dataclasses import dataclass
    from typing import ClassVar
    from leaspy.variables.specs import VariableInterface

    @dataclass(frozen=True)
    class Derived(VariableInterface):
        sources: frozenset
        is_settable: ClassVar = False
        fixed_shape: ClassVar = False

        def get_ancestors_names(self):
            return frozenset(self.sources)

        def compute(self, state):
            return 0
    return Derived


_DERIVED = None


def run_real(par, shuffle_seed=None):
    """par: list (index n-1) of sorted lists of ranks (0 = unknown).  Returns the log record."""
    n = len(par)
    names = [name(i, n) for i in range(1, n + 1)]
    items = list(zip(names, par))
    if shuffle_seed is not None:
        random.Random(shuffle_seed).shuffle(items)
    variables = {nm: IndepVariable() for nm, _ in items}
    anc = {nm: frozenset(name(p, n) for p in ps) for nm, ps in items}
    rank = {nm: i + 1 for i, nm in enumerate(names)}
    rec = {"par": [sorted(p) for p in par]}
    # two construction routes, chosen by the declaration itself: the constructor with explicit direct ancestors, and
    # VariablesDAG.from_dict on variable objects that DECLARE their dependencies (the route every model takes)
    via_dict = (sum(len(p) * (i + 3) for i, p in enumerate(par)) + n) % 2 == 0
    rec["route"] = "from_dict" if via_dict else "constructor"
    try:
        if via_dict:
            from leaspy.utils.functional import NamedInputFunction
            from leaspy.variables.specs import LinkedVariable
            global _DERIVED
            if _DERIVED is None:
                _DERIVED = _custom_kind()

            def spec_of(nm, k):
                # dependent variables: the built-in linked kind or (every third one) a user-defined kind; variables without
                # dependencies: independent ones or (every third one) a linked variable that depends on nothing
                if anc[nm]:
                    return _DERIVED(frozenset(anc[nm])) if (k + len(anc[nm])) % 3 == 0 else LinkedVariable(NamedInputFunction(_zero, parameters=tuple(sorted(anc[nm]))))
                return LinkedVariable(NamedInputFunction(_zero, parameters=())) if (k + n) % 3 == 0 else IndepVariable()
            specs = {nm: spec_of(nm, rank[nm]) for nm, _ in items}
            dag = VariablesDAG.from_dict(specs)
        else:
            from leaspy.utils.functional import NamedInputFunction
            from leaspy.variables.specs import LinkedVariable
            # (explicit dependencies; every third variable without dependencies is a linked variable that depends on nothing)
            variables = {nm: (LinkedVariable(NamedInputFunction(_zero, parameters=())) if (not anc[nm] and (rank[nm] + n) % 3 == 0) else IndepVariable())
                         for nm, _ in items}
            dag = VariablesDAG(variables, direct_ancestors=anc)
    except LeaspyInputError:
        rec.update(cls="input_error", order=[], anc=[], desc=[])
        return rec
    except ValueError:
        rec.update(cls="value_error", order=[], anc=[], desc=[])
        return rec
    except Exception as e:  # any other exception class: an outcome the specification never predicts
        rec.update(cls=f"other_{type(e).__name__}", order=[], anc=[], desc=[])
        return rec
    rec["cls"] = "ok"
    # total projection: whatever the constructor produced is written out (missing entries as [-1])
    rec["order"] = [rank.get(x, -1) for x in dag.sorted_variables_names]
    rec["anc"] = [[rank.get(x, -1) for x in dag.sorted_ancestors.get(nm, ("?",))] for nm in names]
    rec["desc"] = [[rank.get(x, -1) for x in dag.sorted_children.get(nm, ("?",))] for nm in names]
    # the mapping interface iterates in the same order
    if [rank[x] for x in dag] != rec["order"]:
        rec["order"] = [-1]
    return rec


def all_declarations(n):
    subsets = [list(c) for k in range(n + 2) for c in itertools.combinations(range(n + 1), k)]
    for combo in itertools.product(subsets, repeat=n):
        yield [list(c) for c in combo]


def run_chunk(args):
    """Worker of the thorough tier: every declaration over n nodes whose first node has the subset of index `first`."""
    n, first = args
    import torch
    torch.set_num_threads(1)
    subsets = [list(c) for k in range(n + 2) for c in itertools.combinations(range(n + 1), k)]
    out = []
    for combo in itertools.product(subsets, repeat=n - 1):
        out.append(run_real([list(subsets[first])] + [list(c) for c in combo]))
    return out


def n_subsets(n):
    return 2 ** (n + 1)


def random_declaration(rnd, n, kind):
    """kind: 'dag' (random order-respecting edges, connected-ish), 'digraph' (any edges), 'dirty' (unknown/self refs)."""
    perm = list(range(1, n + 1))
    rnd.shuffle(perm)
    pos = {v: i for i, v in enumerate(perm)}
    p_edge = rnd.choice([0.15, 0.3, 0.5])
    par = []
    for v in range(1, n + 1):
        ps = set()
        for u in range(1, n + 1):
            if u == v:
                continue
            if kind == "dag":
                if pos[u] < pos[v] and rnd.random() < p_edge:
                    ps.add(u)
            else:
                if rnd.random() < p_edge * 0.6:
                    ps.add(u)
        if kind == "dirty":
            r = rnd.random()
            if r < 0.05:
                ps.add(0)
            elif r < 0.1:
                ps.add(v)
        par.append(sorted(ps))
    return par


def structured_declarations():
    """Graph families with many paths between two nodes / deep closures (complete DAGs, diamond towers, layered)."""
    out = []
    for n in range(5, 13):                       # complete DAG: 2^(n-2) paths from the first to the last node
        out.append([list(range(1, v)) for v in range(1, n + 1)])
        out.append([list(range(v + 1, n + 1)) for v in range(1, n + 1)])     # reversed name order
    for k in range(2, 11):                       # tower of k diamonds: 2^k paths top to bottom
        par = [[]]
        top = 1
        for _ in range(k):
            a, b, c = len(par) + 1, len(par) + 2, len(par) + 3
            par += [[top], [top], [a, b]]
            top = c
        out.append(par)
    for layers, width in ((4, 3), (5, 3), (4, 4), (3, 5)):   # dense layered graphs: width^(layers-1) paths
        par = []
        prev = []
        for _ in range(layers):
            cur = list(range(len(par) + 1, len(par) + width + 1))
            par += [list(prev) for _ in cur]
            prev = cur
        par.append(list(prev))
        out.append(par)
    return out


def model_declaration(model, incremental=False):
    specs = model.get_variables_specs()
    ref = specs                      # the declarations (dependencies as declared by a collection filled in one go)
    if incremental:
        # the same definitions entered in two steps with a read-only inspection in between: the graph must be the same
        # ("the order is a deterministic function of the definitions")
        from leaspy.variables.specs import NamedVariables
        items = [(k, v) for k, v in specs.data.items()]
        nv = NamedVariables()
        half = len(items) // 2
        for k, v in items[:half]:
            if k not in nv.data:
                nv[k] = v
        _ = [(k, nv[k]) for k in nv]                 # inspection
        _ = len(nv), list(nv.items())
        for k, v in items[half:]:
            if k not in nv.data:
                nv[k] = v
        specs = nv
    names = sorted(ref)
    rank = {nm: i + 1 for i, nm in enumerate(names)}
    par = [sorted(rank[p] for p in ref[nm].get_ancestors_names()) for nm in names]
    rec = {"par": par, "route": "incremental" if incremental else "from_dict"}
    try:
        dag = VariablesDAG.from_dict(specs)
        rec.update(cls="ok", order=[rank.get(x, -1) for x in dag.sorted_variables_names],
                   anc=[[rank.get(x, -1) for x in dag.sorted_ancestors.get(nm, ("?",))] for nm in names],
                   desc=[[rank.get(x, -1) for x in dag.sorted_children.get(nm, ("?",))] for nm in names])
    except Exception as e:  # noqa: BLE001
        rec.update(cls=f"other_{type(e).__name__}", order=[], anc=[], desc=[])
    return rec


CFG = """SPECIFICATION TSpec
CONSTANT N = 0
INVARIANT Conforms
INVARIANT RefHolds
"""


def validate(records, outdir, tag, expect_n=0, expect_count=0, ref=True):
    """TLC checks every record against Build(par).  Returns (ok, failing record index or None, TlcResult)."""
    os.makedirs(outdir, exist_ok=True)
    path = os.path.join(outdir, f"{tag}.ndjson")
    with open(path, "w") as f:
        for r in records:
            f.write(json.dumps(r) + "\n")
    cfg = os.path.join(outdir, f"{tag}.cfg")
    with open(cfg, "w") as f:
        f.write(CFG if ref else CFG.replace("INVARIANT RefHolds\n", ""))
        if expect_n:
            f.write("INVARIANT Covered\n")
    res = tlc.run("VarGraphTrace", cfg, workers=16,
                  env={"TRACE_FILE": path, "EXPECT_N": str(expect_n), "EXPECT_COUNT": str(expect_count)}, timeout=3000)
    tlc.require_ok(res, f"VarGraphTrace {tag}")
    idx = None
    if res.violated:
        m = re.search(r"/\\ k = (\d+)", res.out) or re.search(r"k = (\d+)", res.out)
        idx = int(m.group(1)) - 1 if m else None
    return not res.violated, idx, res
