"""Driver for specs/SaveLoad.tla: fit / save / load / re-save round trips over model configurations."""
from __future__ import annotations

import json
import os
import warnings

import numpy as np
import torch

import leaspy.models  # noqa: F401
from leaspy.io.data import Data
from leaspy.io.outputs import IndividualParameters
from leaspy.models import BaseModel, model_factory
from leaspy.models.obs_models import observation_model_factory

from .. import zoo
from .saem import pop_at_mode

UNSPEC = 99


def json_same(a, b, rtol=1e-6):
    """Same structure (keys, nesting, types of leaves), numbers equal to single precision."""
    if isinstance(a, dict) and isinstance(b, dict):
        return set(a) == set(b) and all(json_same(a[k], b[k], rtol) for k in a)
    if isinstance(a, list) and isinstance(b, list):
        return len(a) == len(b) and all(json_same(x, y, rtol) for x, y in zip(a, b))
    if isinstance(a, bool) or isinstance(b, bool) or isinstance(a, str) or isinstance(b, str) or a is None or b is None:
        return a == b
    if isinstance(a, (int, float)) and isinstance(b, (int, float)):
        return abs(a - b) <= rtol * max(1.0, abs(a), abs(b)) * 2 or (a != a and b != b)
    return False


def trajectories(model, dim, src):
    ips = IndividualParameters()
    d = {"tau": 70.5, "xi": 0.2}
    if src:
        d["sources"] = [0.3] * src
    ips.add_individual_parameters("p", d)
    return np.asarray(model.estimate({"p": [60.0, 66.5, 70.5, 75.0, 88.0]}, ips)["p"], dtype=float)


def run_case(c, rnd, tmp):
    kind, dim, dimgiven, src, noise = str(c["kind"]), int(c["dim"]), bool(c["dimgiven"]), int(c["src"]), str(c["noise"])
    feats, iname, origin = str(c["feats"]), str(c["iname"]), str(c["origin"])
    rec = dict(kind=kind, dim=dim, dimgiven=dimgiven, src=src, noise=noise, feats=feats, iname=iname, origin=origin)
    rec.update(status="ok", pop_at_mode=False, derived_consistent=False, save_ok=False, src_resolved=-1, load_ok=False,
               same_params=False, same_hyper=False, same_traj=False, resave_same=False, load_error="")
    try:
        with warnings.catch_warnings():
            warnings.simplefilter("ignore")
            df = zoo.cohort(n_ind=6, dim=dim, seed=rnd.choice([0, 1, 3]), events=(kind == "joint"))
            if feats == "int_labels":
                # feature columns labelled by integers (not in increasing order): accepted end to end, must come back as such
                df = df.rename(columns={f"Y{i}": [10, 2, 7, 5][i] for i in range(dim)})
            if feats == "odd_names":
                # names as they come from file headers: surrounding blanks, inner blank, a slash, a dot, non-ASCII letters
                df = df.rename(columns={f"Y{i}": [" MMSE ", "p-tau/A\u03b2 42", "adas.cog\t", "x y"][i] for i in range(dim)})
            if feats == "named":
                df = df.rename(columns={f"Y{i}": f"feat_{chr(97 + i)}" for i in range(dim)})
            data = Data.from_dataframe(df, data_type="joint") if kind == "joint" else Data.from_dataframe(df)
            kw = {}
            if dimgiven:
                kw["dimension"] = dim
            if src != UNSPEC:
                kw["source_dimension"] = src
            if noise == "scalar":
                kw["obs_models"] = observation_model_factory("gaussian-scalar")
            elif noise == "diag":
                kw["obs_models"] = observation_model_factory("gaussian-diagonal", dimension=dim)
            model = model_factory(kind, instance_name=("my-model_1" if iname == "custom" else None), **kw)
            mem = {"fit_mem2": 2, "fit_mem3": 3}.get(origin, 1)
            for attempt in range(4):
                try:
                    model.fit(data, "mcmc_saem", n_iter=3 + mem, n_burn_in_iter=3, seed=rnd.randrange(1000), progress_bar=False)
                    break
                except Exception as e:  # noqa: BLE001
                    # a tiny cohort on which the calibration itself degenerates (a variance collapsing to zero) says nothing about
                    # save / load: another seed is drawn (a fresh model object, the failed one is discarded)
                    if type(e).__name__ != "LeaspyConvergenceError" or attempt == 3:
                        raise
                    model = model_factory(kind, instance_name=("my-model_1" if iname == "custom" else None), **kw)
            p1 = os.path.join(tmp, f"m_{rnd.random()}.json")
            if origin in ("edited", "refit"):
                # the object and the path have a past: trajectories were asked, the model was saved to and loaded from the SAME
                # path before it changes
                trajectories(model, dim, int(getattr(model, "source_dimension", 0) or 0))
                model.save(p1)
                try:
                    trajectories(BaseModel.load(p1), dim, int(getattr(model, "source_dimension", 0) or 0))
                except Exception:  # noqa: BLE001 - whether this configuration loads at all is judged below, on the final file
                    pass
            if origin == "refit":
                # the fitted object is calibrated again (continues from where it stands)
                try:
                    model.fit(data, "mcmc_saem", n_iter=4, n_burn_in_iter=3, seed=rnd.randrange(1000), progress_bar=False)
                except Exception as e:  # noqa: BLE001
                    if type(e).__name__ != "LeaspyConvergenceError":
                        raise
            if origin == "edited":
                # hand-written values put into the fitted model object itself
                new = {}
                for key, v in model.parameters.items():
                    v = v.clone()
                    if key.endswith("_mean") and v.dtype.is_floating_point:
                        v = v + torch.tensor(np.float32(rnd.uniform(0.05, 0.15))) * (1 if rnd.random() < 0.5 else -1)
                    new[key] = v.tolist()
                model.load_parameters(new)
            rec["pop_at_mode"] = bool(pop_at_mode(model))
            rec["src_resolved"] = int(getattr(model, "source_dimension", 0) or 0)
            # derived quantities agree with the parameters that get saved: recompute from scratch on the state
            from ..wrap import stale_nodes
            rec["derived_consistent"] = len(stale_nodes(model.state)) == 0
            model.save(p1)
            rec["save_ok"] = os.path.exists(p1)
            try:
                loaded = BaseModel.load(p1)
                rec["load_ok"] = True
            except Exception as e:  # noqa: BLE001
                rec["load_error"] = f"{type(e).__name__}: {str(e)[:80]}"
                return rec
            ref_model, ref_file = model, p1
            if origin == "hand":
                # a hand-written file: the saved file of the loaded model with edited numbers
                p_h = p1 + ".hand.json"
                loaded.save(p_h)
                js = json.load(open(p_h))
                for key, v in js["parameters"].items():
                    if key.endswith("_mean") and isinstance(v, list) and v and isinstance(v[0], float):
                        js["parameters"][key] = [float(np.float32(x + rnd.uniform(-0.05, 0.05))) for x in v]
                js["parameters"].pop("mixing_matrix", None)
                json.dump(js, open(p_h, "w"), indent=2)
                ref_model = BaseModel.load(p_h)
                loaded = BaseModel.load(p_h)
                ref_file = p_h
                js_ref = js
            a, b = ref_model.parameters, loaded.parameters
            rec["same_params"] = set(a) == set(b) and all(
                np.allclose(np.asarray(a[k], dtype=float).squeeze(), np.asarray(b[k], dtype=float).squeeze(), rtol=1e-6, atol=1e-7) for k in a)
            if origin == "hand":
                rec["same_params"] = rec["same_params"] and all(
                    np.allclose(np.asarray(js_ref["parameters"][k], dtype=float).squeeze(), np.asarray(b[k], dtype=float).squeeze(), rtol=1e-6, atol=1e-7)
                    for k in js_ref["parameters"] if k in b)
            rec["same_hyper"] = (ref_model.dimension == loaded.dimension and list(ref_model.features) == list(loaded.features)
                                 and int(getattr(ref_model, "source_dimension", 0) or 0) == int(getattr(loaded, "source_dimension", 0) or 0)
                                 and [o.to_string() for o in ref_model.obs_models] == [o.to_string() for o in loaded.obs_models]
                                 and type(ref_model) is type(loaded))
            s = rec["src_resolved"]
            rec["same_traj"] = bool(np.allclose(trajectories(ref_model, dim, s), trajectories(loaded, dim, s), rtol=1e-5, atol=1e-6))
            p2 = p1 + ".resaved.json"
            loaded.save(p2)
            j1, j2 = json.load(open(ref_file)), json.load(open(p2))
            if origin == "hand":
                j2["parameters"].pop("mixing_matrix", None)
            for j in (j1, j2):
                j.pop("leaspy_version", None)
            rec["resave_same"] = bool(json_same(j1, j2))
    except Exception as e:  # noqa: BLE001
        rec["status"] = f"{type(e).__name__}: {str(e)[:160]}"
    return rec
