"""Driver for specs/StateCache.tla: MC generation, TLC runs, replay of TLC behaviours into the real State."""
from __future__ import annotations

import glob
import math
import os

import torch

import leaspy.models  # noqa: F401  (import order, see DESIGN)
from leaspy.exceptions import LeaspyInputError
from leaspy.variables.dag import VariablesDAG
from leaspy.variables.specs import DataVariable, Hyperparameter, LinkedVariable
from leaspy.variables.state import State, StateForkType

from .. import tlaval, tlc

# ----------------------------------------------------------------------------------------------
# toy graph family (DESIGN 3.1).  name -> dict(parents, settable, hyper, indaxis)
GRAPHS = {
    # G1 chain
    "G1": dict(parents={"a": [], "b": ["a"], "c": ["b"]}, settable=["a"], hyper=[], indaxis=[]),
    # G2 diamond with an aggregate: a(ind), b(pop) -> c(ind) -> d(agg)
    "G2": dict(parents={"a": [], "b": [], "c": ["a", "b"], "d": ["c"]}, settable=["a", "b"], hyper=[],
               indaxis=["a", "c"]),
    # G3 two roots sharing a child and a late root (name order differs from dependency order)
    "G3": dict(parents={"z": [], "y": [], "m": ["z", "y"], "a": [], "k": ["m", "a"]}, settable=["z", "y", "a"],
               hyper=[], indaxis=[]),
    # G4 individual + population parents, aggregated leaf, sufficient-statistic side branch, hyper-parameter
    "G4": dict(parents={"x": [], "p": [], "h": [], "m": ["x", "p"], "l": ["m", "h"], "t": ["l"], "s": ["x"]},
               settable=["x", "p"], hyper=["h"], indaxis=["x", "m", "l"]),
    # G5 hyper-parameter root and a shared grand-child
    "G5": dict(parents={"h": [], "a": [], "u": ["h", "a"], "v": ["a"], "w": ["u", "v"]}, settable=["a"],
               hyper=["h"], indaxis=[]),
}

_PRIMES = [3, 5, 7, 11, 13, 17, 19, 23]


def tla_set(xs):
    return "{" + ", ".join(xs) + "}"


def q(s):
    return f'"{s}"'


def make_functions(graph):
    """Numeric image of the term constructor: f_n(parents) = c_n + sum_k prime_k * reduce(parent_k)."""
    nodes = sorted(graph["parents"])
    fns = {}
    for idx, n in enumerate(nodes):
        ps = sorted(graph["parents"][n])
        if not ps:
            continue
        c_n = 1000.0 * (idx + 1)
        n_ind = n in graph["indaxis"]
        w = {p: float(_PRIMES[k]) for k, p in enumerate(ps)}
        pind = {p: (p in graph["indaxis"]) for p in ps}

        def f(_c=c_n, _w=w, _pind=pind, _n_ind=n_ind, **kw):
            out = None
            for p, v in kw.items():
                if _pind[p] and not _n_ind:
                    pos = torch.arange(1, v.shape[0] + 1, dtype=v.dtype)
                    v = (v * (pos + 1.0)).sum()
                term = _w[p] * v
                out = term if out is None else out + term
            return out + _c
        # the last of several parents is declared with a default value (a legal definition: the value of the state is what
        # counts - a dependency is a dependency whether or not the definition names a default)
        sig = [p if not (len(ps) >= 2 and p == ps[-1]) else f"{p}=_DEFAULT" for p in ps]
        src = f"def _f(*, {', '.join(sig)}):\n    return _impl({', '.join(f'{p}={p}' for p in ps)})\n"
        ns = {"_impl": f, "_DEFAULT": torch.tensor(12345.0, dtype=torch.float64)}
        exec(src, ns)
        fns[n] = ns["_f"]
    return fns


def build_dag(graph):
    fns = make_functions(graph)
    variables = {}
    for n, ps in graph["parents"].items():
        if ps:
            variables[n] = LinkedVariable(fns[n])
        elif n in graph["hyper"]:
            variables[n] = Hyperparameter(torch.tensor(0.0, dtype=torch.float64))
        else:
            variables[n] = DataVariable()
    return VariablesDAG.from_dict(variables), fns


def gen_mc(name, graph, order, outdir, *, base=(0, 1), nonfin=(), objs=(1, 2), modes=("none", "ref", "copy"),
           max_ops=6, fix_stale=True, select=True, inds=(1, 2), invariants=True, view=True, tag=""):
    nodes = sorted(graph["parents"])
    mod = f"MC_{name}{tag}"
    par = " @@ ".join(f'{q(n)} :> {tla_set([q(p) for p in sorted(graph["parents"][n])])}' for n in nodes)
    body = f"""---- MODULE {mod} ----
EXTENDS StateCache
MCNodes == {tla_set([q(n) for n in nodes])}
MCParents == {par}
MCOrder == <<{", ".join(q(n) for n in order)}>>
MCSettable == {tla_set([q(n) for n in graph["settable"]])}
MCHyper == {tla_set([q(n) for n in graph["hyper"]])}
MCIndAxis == {tla_set([q(n) for n in graph["indaxis"]])}
MCInds == {tla_set([str(i) for i in inds])}
MCBase == {tla_set([str(b) for b in base])}
MCNonFin == {tla_set([q(x) for x in nonfin])}
MCObjs == {tla_set([str(o) for o in objs])}
MCModes == {tla_set([q(m) for m in modes])}
====
"""
    with open(os.path.join(outdir, mod + ".tla"), "w") as f:
        f.write(body)
    cfg = f"""SPECIFICATION Spec
CONSTANTS
  Nodes <- MCNodes
  Parents <- MCParents
  Order <- MCOrder
  Settable <- MCSettable
  Hyper <- MCHyper
  IndAxis <- MCIndAxis
  Inds <- MCInds
  Base <- MCBase
  NonFin <- MCNonFin
  Objs <- MCObjs
  Modes <- MCModes
  MaxOps = {max_ops}
  Mk <- MkTerm
  FixStaleFork = {"TRUE" if fix_stale else "FALSE"}
  SelectRevert = {"TRUE" if select else "FALSE"}
CONSTRAINT Bounded
"""
    if view:
        cfg += "VIEW View\n"
    if invariants:
        cfg += ("INVARIANT Fresh\nINVARIANT ReadTotal\nINVARIANT ForkFresh\n"
                "PROPERTY ForkRestores\nPROPERTY RevertFullExact\nPROPERTY PartialRevertExact\nPROPERTY CloneIsolation\n")
    with open(os.path.join(outdir, mod + ".cfg"), "w") as f:
        f.write(cfg)
    return mod


# ----------------------------------------------------------------------------------------------
# numeric image of spec values
def num(v, fns, graph, n_inds):
    """Spec value -> torch value (float64) or None."""
    if v == ():
        return None
    tag = v[0]
    if tag == "s":
        return torch.tensor(float(v[1]), dtype=torch.float64)
    if tag == "nan":
        return torch.tensor(math.nan, dtype=torch.float64)
    if tag == "inf":
        return torch.tensor(math.inf, dtype=torch.float64)
    if tag == "i":
        f = v[1]
        items = [num(_idx(f, i), fns, graph, n_inds) for i in range(1, n_inds + 1)]
        return torch.stack(items)
    if tag == "t":
        n, env = v[1], v[2]
        kw = {p: num(pv, fns, graph, n_inds) for p, pv in _items(env)}
        return fns[n](**kw)
    raise ValueError(v)


def _idx(f, i):
    if isinstance(f, tuple):
        return f[i - 1]
    return f[i]


def fn(x):
    """A TLA+ function with domain 1..n is printed as a sequence: give it back its domain."""
    if isinstance(x, tuple):
        return {i + 1: v for i, v in enumerate(x)}
    return x


def _items(env):
    if isinstance(env, dict):
        return env.items()
    raise ValueError(env)


def _unwrap(x):
    from leaspy.utils.weighted_tensor import WeightedTensor
    if isinstance(x, WeightedTensor):
        if x.weight is not None and not bool((x.weight == 1).all()):
            return None
        return x.value
    return x


def same(a, b):
    a, b = _unwrap(a), _unwrap(b)
    if a is None or b is None:
        return a is None and b is None
    if a.shape != b.shape:
        return False
    return bool(torch.equal(torch.nan_to_num(a, nan=-12345.0, posinf=1e300), torch.nan_to_num(b, nan=-12345.0, posinf=1e300)))


_MODE = {"none": None, "ref": StateForkType.REF, "copy": StateForkType.COPY}
_RMODE = {None: "none", StateForkType.REF: "ref", StateForkType.COPY: "copy"}


class Replayer:
    """Executes spec actions on real State objects and compares projections after each step."""

    def __init__(self, graph, weighted=False):
        self.graph = graph
        self.dag, self.fns = build_dag(graph)
        self.n_inds = 2
        self.weighted = weighted      # values carrying the individual axis are WeightedTensors (as `model`, `y` in leaspy)

    def wrap(self, node, v):
        if self.weighted and v is not None and node in self.graph["indaxis"]:
            from leaspy.utils.weighted_tensor import WeightedTensor
            return WeightedTensor(v, torch.ones_like(v, dtype=torch.bool))
        return v

    def order(self):
        return list(self.dag.sorted_variables_names)

    def project_mismatch(self, real: dict, spec_obj: dict):
        """Return a description of the first difference between real objects and the spec's obj, or None."""
        for o, rec in fn(spec_obj).items():
            st = real.get(o)
            if not rec["live"]:
                continue
            if st is None:
                return f"object {o} live in spec, absent in implementation"
            if _RMODE[st.auto_fork_type] != rec["mode"]:
                return f"object {o}: auto_fork_type {_RMODE[st.auto_fork_type]} != spec {rec['mode']}"
            for n, sv in rec["vals"].items():
                rv = st._values[n]
                ev = num(sv, self.fns, self.graph, self.n_inds)
                if not same(rv, ev):
                    return f"object {o}: cached value of {n} is {rv}, spec says {ev} ({sv})"
            sf = rec["fork"]
            rf = st._last_fork
            if sf == ():
                if rf is not None:
                    return f"object {o}: a fork is held ({sorted(rf)}), spec says none"
            else:
                if rf is None:
                    return f"object {o}: no fork held, spec holds {sorted(sf)}"
                if set(rf) != set(sf):
                    return f"object {o}: fork keys {sorted(rf)} != spec {sorted(sf)}"
                for n, sv in fn(sf).items():
                    if not same(rf[n], num(sv, self.fns, self.graph, self.n_inds)):
                        return f"object {o}: forked value of {n} is {rf[n]}, spec says {sv}"
        return None

    def step(self, real: dict, action: str, st: dict):
        """Execute the action described by the post-state's observation variables. Returns the outcome class."""
        op, o, node = st["last"]
        args = st["args"]
        outcome = "-"
        try:
            if op == "SetMode":
                real[o].auto_fork_type = _MODE[args[0]]
            elif op == "Assign":
                held = real[o]._values.get(node) if real[o].auto_fork_type is StateForkType.COPY else None
                real[o][node] = self.wrap(node, num(args[0], self.fns, self.graph, self.n_inds))
                # COPY mode promises isolation between the fork and later modifications of the original values: the caller re-uses
                # the buffer of the value it had assigned before (in place), which must be invisible (a stuttering step of the
                # specification).  Not done when another live object still refers to the same tensor.
                if held is not None and not any(
                        any(v is held for v in (other._values.get(node), (other._last_fork or {}).get(node)))
                        for oo, other in real.items() if oo != o and other is not None):
                    buf = held.value if hasattr(held, "value") and not isinstance(held, torch.Tensor) else held
                    if isinstance(buf, torch.Tensor) and buf.dtype.is_floating_point and buf is not (real[o]._values.get(node)):
                        with torch.no_grad():
                            buf.add_(777.0)
            elif op == "Put":
                i, x, acc = args
                xv = num(x, self.fns, self.graph, self.n_inds)
                if node in self.graph["indaxis"]:
                    real[o].put(node, xv, indices=(i - 1,), accumulate=acc)
                else:
                    real[o].put(node, xv, indices=(), accumulate=acc)
            elif op == "Read":
                v = real[o][node]
                outcome = "ok"
                fresh = self.from_scratch(real[o], node)
                if not same(v, fresh):
                    return f"stale:{node}: read {v}, from scratch {fresh}"
            elif op == "PrecomputeAll":
                real[o].precompute_all()
                outcome = "ok"
            elif op == "RevertFull":
                try:
                    real[o].revert()
                except LeaspyInputError:
                    outcome = "no_fork"
            elif op == "RevertPartial":
                mask = args[0]
                m = torch.tensor([bool(_idx(mask, i)) for i in range(1, self.n_inds + 1)])
                try:
                    real[o].revert(m)
                except LeaspyInputError:
                    outcome = "no_fork"
            elif op == "Clone":
                src, dis, keep = args
                real[o] = real[src].clone(disable_auto_fork=dis, keep_last_fork=keep)
            elif op == "Clear":
                real[o].clear()
            else:
                raise ValueError(op)
        except LeaspyInputError:
            outcome = "input_error"
        except Exception as e:  # any other exception class is an outcome the spec never predicts
            outcome = f"other:{type(e).__name__}:{e}"
        return outcome

    def from_scratch(self, state: State, node):
        fresh = State(self.dag)
        for n in self.dag:
            var = self.dag[n]
            if not var.get_ancestors_names() and var.is_settable:
                fresh._values[n] = state._values[n]
        try:
            return fresh[node]
        except LeaspyInputError:
            return None

    def replay(self, states):
        """states: list of (action, vars).  Returns None or (step index, message)."""
        init = states[0][1]
        real = {}
        for o, rec in fn(init["obj"]).items():
            if rec["live"]:
                real[o] = State(self.dag, auto_fork_type=_MODE[rec["mode"]])
        msg = self.project_mismatch(real, init["obj"])
        if msg:
            return 0, msg
        for k, (action, st) in enumerate(states[1:], start=1):
            outcome = self.step(real, action, st)
            if outcome != st["err"]:
                return k, f"{st['last']} args={st['args']}: outcome {outcome!r}, spec says {st['err']!r}"
            msg = self.project_mismatch(real, st["obj"])
            if msg:
                return k, f"after {st['last']} args={st['args']}: {msg}"
        return None


def simulate(mod, cwd, outdir, *, num_traces, depth, seed):
    os.makedirs(outdir, exist_ok=True)
    res = tlc.run(mod, mod + ".cfg", cwd=cwd, workers=1, simulate=f"file={outdir}/tr,num={num_traces}", depth=depth,
                  seed=seed, timeout=1800, deadlock=False)
    tlc.require_ok(res, f"simulate {mod}")
    files = sorted(glob.glob(os.path.join(outdir, "tr*")))
    return res, files


def load_trace(path):
    with open(path) as f:
        return tlaval.parse_sim_trace(f.read())


# ----------------------------------------------------------------------------------------------
# code -> spec: trace validation on real model graphs
def graph_of_state(state, n_ind=None):
    """Export the variable graph of a real State for the trace specification."""
    from leaspy.variables.specs import Hyperparameter as _H, IndividualLatentVariable as _ILV
    dag = state.dag
    parents = {n: sorted(dag.direct_ancestors[n]) for n in dag}
    settable = [n for n in dag if not parents[n] and dag[n].is_settable]
    hyper = [n for n in dag if isinstance(dag[n], _H)]
    ind_roots = [n for n in dag if isinstance(dag[n], _ILV)]
    cand = set(ind_roots)
    for r in ind_roots:
        cand |= set(dag.sorted_children[r])
    indaxis = set(ind_roots)
    if n_ind is not None:
        probe = state.clone(disable_auto_fork=True)
        for n in cand:
            try:
                v = probe[n]
            except Exception:
                continue
            shape = tuple(v.shape)
            if len(shape) >= 1 and shape[0] == n_ind:
                indaxis.add(n)
    return dict(parents=parents, settable=settable, hyper=hyper, indaxis=sorted(indaxis)), list(dag.sorted_variables_names)


def gen_trace_mc(name, graph, order, n_obj, outdir):
    nodes = sorted(graph["parents"])
    mod = f"TR_{name}"
    par = " @@ ".join(f'{q(n)} :> {tla_set([q(p) for p in sorted(graph["parents"][n])])}' for n in nodes)
    body = f"""---- MODULE {mod} ----
EXTENDS StateCacheTrace
MCNodes == {tla_set([q(n) for n in nodes])}
MCParents == {par}
MCOrder == <<{", ".join(q(n) for n in order)}>>
MCSettable == {tla_set([q(n) for n in graph["settable"]])}
MCHyper == {tla_set([q(n) for n in graph["hyper"]])}
MCIndAxis == {tla_set([q(n) for n in graph["indaxis"]])}
MCObjs == 1..{max(n_obj, 1)}
====
"""
    with open(os.path.join(outdir, mod + ".tla"), "w") as f:
        f.write(body)
    cfg = """SPECIFICATION TraceSpec
CONSTANTS
  Nodes <- MCNodes
  Parents <- MCParents
  Order <- MCOrder
  Settable <- MCSettable
  Hyper <- MCHyper
  IndAxis <- MCIndAxis
  Inds = {1}
  Base = {0}
  NonFin = {}
  Objs <- MCObjs
  Modes = {"none", "ref", "copy"}
  MaxOps = 0
  Mk <- MkSet
  FixStaleFork = TRUE
  SelectRevert = TRUE
CHECK_DEADLOCK FALSE
POSTCONDITION Report
"""
    with open(os.path.join(outdir, mod + ".cfg"), "w") as f:
        f.write(cfg)
    return mod


def validate_trace(name, graph, order, events, n_obj, outdir):
    """Returns (accepted, matched_prefix_length, TlcResult)."""
    import json
    import re
    mod = gen_trace_mc(name, graph, order, n_obj, outdir)
    path = os.path.join(outdir, f"{name}.ndjson")
    with open(path, "w") as f:
        for e in events:
            f.write(json.dumps(e) + "\n")
    res = tlc.run(mod, mod + ".cfg", cwd=outdir, workers=1, env={"TRACE_FILE": path}, timeout=1800)
    m = re.search(r'<<"REJECTED-AT", (\d+), (\d+)>>', res.out)
    if m:
        return False, int(m.group(1)) - 1, res
    if res.error_text and "REJECTED-AT" not in res.out:
        raise tlc.MachineryError(f"trace validation of {name} failed to run: {res.error_text[:1500]}")
    return True, len(events), res


# ----------------------------------------------------------------------------------------------
# random API histories on real model states (alphabet of the specification, contract respected)
def random_history(state, rng, n_ops, indaxis):
    """Drive a real State through proposal episodes, reads, reverts, clones, mode switches.  Exceptions of
    class LeaspyInputError are part of the behaviour (recorded by the wrappers)."""
    from leaspy.variables.specs import IndividualLatentVariable as ILV, ModelParameter as MP, PopulationLatentVariable as PLV
    dag = state.dag
    pop = list(dag.sorted_variables_by_type.get(PLV, {}))
    ind = list(dag.sorted_variables_by_type.get(ILV, {}))
    par = [n for n in dag.sorted_variables_by_type.get(MP, {})]
    nodes = list(dag)
    derived = [n for n in nodes if len(dag.direct_ancestors[n])]
    ind_derived = [n for n in derived if n in set(indaxis)]
    cur = state
    stack = []

    def safe_read(st, n):
        try:
            st[n]
        except LeaspyInputError:
            pass

    mode0 = state.auto_fork_type
    for _k in range(n_ops + 1):
        if _k == n_ops:
            # the caller gets its object back in the mode it had (the algorithms run afterwards rely on it)
            state.auto_fork_type = mode0
            break
        c = rng.choice(["pop", "pop", "ind", "ind", "read", "param", "clone", "mode", "unset", "back", "precompute"])
        if c == "pop" and pop:
            v = pop[rng.randint(len(pop))]
            val = cur._values[v]
            if val is None:
                continue
            idx = tuple(int(rng.randint(s)) for s in val.shape)
            cur.auto_fork_type = StateForkType.REF if rng.rand() < 0.8 else StateForkType.COPY
            cur.put(v, torch.tensor(float(rng.randn() * 0.05), dtype=val.dtype), indices=idx, accumulate=True)
            for n in rng.choice(derived, size=rng.randint(0, 4)):
                safe_read(cur, n)
            if rng.rand() < 0.5:
                cur.revert()
        elif c == "ind" and ind:
            v = ind[rng.randint(len(ind))]
            val = cur._values[v]
            if val is None:
                continue
            cur.auto_fork_type = StateForkType.REF
            cur.put(v, torch.as_tensor(rng.randn(*val.shape) * 0.05, dtype=val.dtype), accumulate=True)
            for n in rng.choice(ind_derived, size=rng.randint(0, 4)):
                safe_read(cur, n)
            r = rng.rand()
            if r < 0.6:
                cur.revert(torch.as_tensor(rng.rand(val.shape[0]) < 0.5))
            elif r < 0.8:
                cur.revert()
        elif c == "read":
            safe_read(cur, nodes[rng.randint(len(nodes))])
        elif c == "param" and par:
            v = par[rng.randint(len(par))]
            val = cur._values[v]
            if val is None:
                continue
            with cur.auto_fork(None if rng.rand() < 0.7 else StateForkType.REF):
                cur[v] = val * (1.0 + 0.01 * float(rng.randn()))
            if rng.rand() < 0.3:
                try:
                    cur.revert()       # after an un-forked assignment there is nothing to revert
                except LeaspyInputError:
                    pass
        elif c == "clone":
            stack.append(cur)
            cur = cur.clone(disable_auto_fork=bool(rng.rand() < 0.5), keep_last_fork=bool(rng.rand() < 0.5))
        elif c == "back" and stack:
            cur = stack.pop()
        elif c == "mode":
            cur.auto_fork_type = [None, StateForkType.REF, StateForkType.COPY][rng.randint(3)]
        elif c == "unset" and ind:
            v = ind[rng.randint(len(ind))]
            val = cur._values[v]
            cur[v] = None
            safe_read(cur, derived[rng.randint(len(derived))])
            if val is not None:
                cur[v] = val
        elif c == "precompute":
            try:
                cur.precompute_all()
            except LeaspyInputError:
                pass


def record_real(config, seed, n_ops, *, fit_iter=3, perso=True):
    """Record State events of fit (+ personalize + estimate + a random history) on one model configuration."""
    import numpy as np

    from .. import wrap, zoo
    rec = wrap.StateRecorder(probe_every=5)
    n_ind = 7
    with rec:
        for attempt in range(4):
            model, data, df = zoo.make(config, n_ind=n_ind, seed=seed + 1000 * attempt)
            try:
                model.fit(data, "mcmc_saem", n_iter=fit_iter, seed=seed, progress_bar=False)
                break
            except LeaspyInputError as e:
                # observed (outside the listed properties): a cohort whose initial log_g is exactly 0 for a feature (mean value
                # exactly 0.5, e.g. binary data with as many ones as zeros) is refused at sampler creation ("Scale ... should
                # be positive"); another cohort is drawn
                if "Scale of variable" not in str(e) or attempt == 3:
                    raise
        rec.probe_every = 1
        random_history(model.state, np.random.RandomState(seed + 17), n_ops,
                       graph_of_state(model.state, n_ind)[0]["indaxis"])
        rec.probe_every = 5
        if perso:
            try:
                ips = model.personalize(data, "mode_posterior", n_iter=3, seed=seed, progress_bar=False)
                model.estimate({df["ID"].iloc[0]: [70.0, 75.0]}, ips)
            except Exception as e:  # a crash here is another property's business; keep the recorded prefix
                rec.events.append({"op": "Note", "o": 1, "outcome": f"other:{type(e).__name__}", "g": -1})
    g = rec.main_graph()
    # the graph export needs a state of that graph holding data: use the recorder's first object of graph g
    st = next(s for s in rec.keep if s.dag is rec.dags[g] and all(s._values[n] is not None for n in ("t",) if n in s.dag))
    evs, n_obj = rec.events_of(g)
    holder = max((s for s in rec.keep if s.dag is rec.dags[g]), key=lambda s: sum(v is not None for v in s._values.values()))
    graph, order = graph_of_state(holder, n_ind)
    _ = st
    return graph, order, evs, n_obj


# ----------------------------------------------------------------------------------------------
# property runners (C01, C02 share the module; each looks at its own invariants)
INVS = {
    "C01": ["INVARIANT Fresh", "INVARIANT ReadTotal", "PROPERTY CloneIsolation"],
    "C02": ["INVARIANT ForkFresh", "INVARIANT Fresh", "PROPERTY ForkRestores", "PROPERTY RevertFullExact",
            "PROPERTY PartialRevertExact"],
}
ACTIONS = ["SetMode", "Assign", "Put", "Read", "PrecomputeAll", "RevertFull", "RevertPartial", "Clone", "Clear"]


def _set_invs(cfg_path, pid):
    with open(cfg_path) as f:
        lines = [l for l in f.read().splitlines() if not (l.startswith("INVARIANT") or l.startswith("PROPERTY"))]
    with open(cfg_path, "w") as f:
        f.write("\n".join(lines + INVS[pid]) + "\n")


def declared_graph_mismatch(gname):
    """The graph the library derives from the toy definitions must be the declared one (every parameter of a definition is a
    dependency, with or without a default value).  Returns None or a description."""
    graph = GRAPHS[gname]
    try:
        dag, _ = build_dag(graph)
    except Exception as e:  # noqa: BLE001 - a legal declaration refused: a verdict about the library, not about the harness
        return f"graph {gname} is refused: {type(e).__name__}: {str(e)[:200]}"
    got = {n: sorted(dag.direct_ancestors.get(n, ())) for n in graph["parents"]}
    want = {n: sorted(ps) for n, ps in graph["parents"].items()}
    if got != want:
        return f"graph {gname}: dependencies derived by the library {got} differ from the definitions {want}"
    return None


def run_toy(ctx, pid, plan, sim_traces, sim_depth):
    """plan: list of (graph name, tag, gen_mc kwargs, coverage?)."""
    import random
    broken = set()
    for gname in sorted({p[0] for p in plan}):
        msg = declared_graph_mismatch(gname)
        if msg:
            broken.add(gname)
            ctx.violation({"check": "toy_graph", "graph": gname}, f"State / VariablesDAG disagree with StateCache.tla before any operation: {msg}",
                          replay={"graph": gname, "message": msg})
    plan = [p for p in plan if p[0] not in broken]
    for gname, tag, kw, cov in plan:
        graph = GRAPHS[gname]
        rp = Replayer(graph)
        mod = gen_mc(gname, graph, rp.order(), ctx.tmp, tag=f"_{pid}_{tag}", **kw)
        _set_invs(os.path.join(ctx.tmp, mod + ".cfg"), pid)
        res = tlc.run(mod, mod + ".cfg", cwd=ctx.tmp, coverage=bool(cov))
        tlc.require_ok(res, mod)
        ctx.add_tlc(f"{gname}/{tag} MaxOps={kw.get('max_ops')}", res)
        ctx.log(f"TLC {mod}: generated={res.generated} distinct={res.distinct} violated={res.violated} {res.wall:.1f}s")
        if res.violated:
            ctx.violation({"check": "toy_exhaustive", "graph": gname, "invariant": res.violated[0]},
                          f"specification {mod} violates {res.violated}", replay=res.trace_text[:6000])
        if cov:
            need = ACTIONS if cov is True else cov
            missing = [a for a in need if res.coverage.get(a, (0, 0))[1] == 0]
            if missing:
                raise tlc.MachineryError(f"vacuity: actions never taken in {mod}: {missing}")
    # spec -> code replay
    graphs = sorted({p[0] for p in plan})
    rnd = random.Random(ctx.seed)
    seen_states = set()
    for gname in graphs:
        graph = GRAPHS[gname]
        rp = Replayer(graph)
        nonfin = ("inf", "nan") if pid == "C02" else ("inf",)
        mod = gen_mc(gname, graph, rp.order(), ctx.tmp, tag=f"_{pid}_sim", invariants=False, view=False, max_ops=10 ** 6,
                     nonfin=nonfin)
        out = os.path.join(ctx.tmp, f"sim_{gname}")
        res, files = simulate(mod, ctx.tmp, out, num_traces=sim_traces, depth=sim_depth, seed=rnd.randrange(1, 2 ** 31))
        n_bad = 0
        for fpath in files:
            tr = load_trace(fpath)
            ops = tuple(st["last"][0] for _, st in tr[1:])
            ctx.case(key=(gname, hash(tuple(repr(st["obj"]) + repr(st["args"]) for _, st in tr))))
            for _, st in tr:
                seen_states.add(hash((gname, repr(st["obj"]))))
            if pid == "C02" and not any(o.startswith("Revert") for o in ops):
                continue
            weighted = bool(graph["indaxis"]) and (ctx.traces % 2 == 1)
            bad = Replayer(graph, weighted=weighted).replay(tr)
            ctx.traces += 1
            if len(ctx.samples) < 3:
                ctx.sample({"graph": gname, "behaviour": [f"{st['last']} {st['args']}" for _, st in tr[1:]]})
            if bad:
                k, msg = bad
                n_bad += 1
                op = tr[k][1]["last"][0] if k else "Init"
                ctx.violation({"check": "toy_replay", "graph": gname, "op": op},
                              f"State disagrees with StateCache.tla on graph {gname} at step {k}: {msg}",
                              replay={"graph": gname, "steps": [[list(map(str, st["last"])), repr(st["args"])] for _, st in tr[1:k + 1]],
                                      "message": msg})
        ctx.log(f"replayed {len(files)} behaviours of {mod} into leaspy State: {n_bad} disagreements")
    ctx.extra["distinct_abstract_states_reached_in_impl"] = len(seen_states)


def run_real(ctx, pid, jobs, n_ops, selftest=True):
    """jobs: list of (config, seed, algo kwargs)."""
    import copy
    accepted = None
    for config, seed in jobs:
        graph, order, evs, n_obj = record_real(config, seed, n_ops)
        d = os.path.join(ctx.tmp, f"tr_{config}_{seed}")
        os.makedirs(d, exist_ok=True)
        ok, k, res = validate_trace(f"{config}_{seed}", graph, order, evs, n_obj, d)
        ctx.traces += 1
        ctx.states += res.distinct
        ctx.transitions += res.generated
        ctx.case(key=("real", config, seed), n=len(evs))
        n_rev = sum(e["op"].startswith("Revert") for e in evs)
        ctx.log(f"trace {config} seed={seed}: {len(evs)} events ({n_rev} reverts, {n_obj} objects, graph of "
                f"{len(graph['parents'])} nodes) -> {'accepted' if ok else f'REJECTED at event {k}'} ({res.wall:.1f}s)")
        if len(ctx.samples) < 6:
            ctx.sample({"config": config, "events": len(evs), "first_events": [
                {kk: vv for kk, vv in e.items() if kk not in ("cached", "fork_keys", "fork_set")} for e in evs[:6]]})
        if not ok:
            e = evs[k] if k < len(evs) else {}
            ctx.violation({"check": "real_trace", "config": config, "event_op": e.get("op"), "node": e.get("n")},
                          f"recorded State behaviour of {config} is not a behaviour of StateCache.tla: event {k} = "
                          f"{ {kk: vv for kk, vv in e.items() if kk != 'cached'} }",
                          replay={"config": config, "seed": seed, "event_index": k, "event": e,
                                  "previous": evs[max(0, k - 3):k]})
        elif accepted is None:
            accepted = (config, seed, graph, order, evs, n_obj)
    if selftest and accepted is not None:
        config, seed, graph, order, evs, n_obj = accepted
        # binding self-test: a corrupted record must be rejected by the specification
        corruptions = []
        ia = next(i for i, e in enumerate(evs) if e["op"] == "Assign" and len(e["cached"]) > 3 and i > len(evs) // 3)
        ev2 = copy.deepcopy(evs)
        ev2[ia]["cached"] = ev2[ia]["cached"][:-1]
        corruptions.append(("cached set of an Assign event", ev2, ia))
        if pid == "C02":
            ir = next(i for i, e in enumerate(evs) if e["op"] in ("RevertFull", "RevertPartial") and e["outcome"] == "-")
            ev3 = copy.deepcopy(evs)
            ev3[ir]["exact"] = False
            corruptions.append(("exactness flag of a revert", ev3, ir))
        else:
            ip = next(i for i, e in enumerate(evs) if e["op"] == "Probe" and i > len(evs) // 2)
            ev3 = copy.deepcopy(evs)
            ev3[ip]["stale"] = ["model"]
            corruptions.append(("stale set of a Probe", ev3, ip))
        for what, ev, idx in corruptions:
            d = os.path.join(ctx.tmp, f"selftest_{idx}")
            os.makedirs(d, exist_ok=True)
            ok, k, res = validate_trace(f"self_{idx}", graph, order, ev, n_obj, d)
            if ok or k != idx:
                raise tlc.MachineryError(f"binding self-test failed: corrupting {what} at event {idx} gave accepted={ok} at {k}")
            ctx.log(f"self-test: corrupting {what} at event {idx} -> rejected at event {k} (as required)")
        ctx.extra["selftest_corruptions_rejected"] = len(corruptions)
