"""Driver for specs/Ingest.tla: builds real tables from abstract cases, runs the readers / Dataset, projects back."""
from __future__ import annotations

import random
import warnings

import numpy as np
import pandas as pd
import torch

import leaspy.models  # noqa: F401
from leaspy.exceptions import LeaspyDataInputError
from leaspy.io.data import Data
from leaspy.io.data.dataset import Dataset

AGE = {"1": 70.25, "2": 71.5, "2r": 71.5000004, "nan": float("nan"), "inf": float("inf")}
VAL = {"x": 0.25, "y": 0.75, "nan": float("nan"), "inf": float("inf")}
IDMAP = {
    "str": {"A": "zed", "B": "abe"}, "int": {"A": 7, "B": 3}, "cat": {"A": "zed", "B": "abe"},
    "negint": {"A": -2, "B": 3}, "float": {"A": 1.5, "B": 2.5}, "emptystr": {"A": "", "B": "abe"},
    "nanid": {"A": np.nan, "B": "abe"}, "mixed": {"A": "zed", "B": 3},
    "nullint": {"A": pd.NA, "B": 3}, "catnan": {"A": np.nan, "B": "abe"},
}


def build_frame(rows, idkind, text, nfeat):
    ids = [IDMAP[idkind][r["id"]] for r in rows]
    if idkind in ("nanid", "mixed"):
        idcol = pd.Series(ids, dtype=object)
    elif idkind in ("cat", "catnan"):
        idcol = pd.Series(pd.Categorical(ids))
    elif idkind == "nullint":
        idcol = pd.Series(ids, dtype="Int64")
    else:
        idcol = pd.Series(ids, dtype=(object if idkind in ("str", "emptystr") else None)) if ids else pd.Series([], dtype=object)
    df = pd.DataFrame({"ID": idcol, "TIME": pd.Series([AGE[r["age"]] for r in rows], dtype=float)})
    for f in range(nfeat):
        col = [VAL[r["vals"][f]] for r in rows]
        if text and f == 0:
            df[f"Y{f}"] = pd.Series(["abc" if i % 2 == 0 else v for i, v in enumerate(col)], dtype=object)
        else:
            df[f"Y{f}"] = pd.Series(col, dtype=float)
    return df


def project(dataset, idkind, nfeat):
    rev = {}
    for a, v in IDMAP[idkind].items():
        rev[v if not ((isinstance(v, float) and v != v) or v is pd.NA) else "nan"] = a
    order = [rev.get(i, f"?{i}") for i in dataset.indices]
    visits = []
    ok = True
    nv = dataset.n_visits_per_individual
    tp, vals, mask = dataset.timepoints, dataset.values, dataset.mask
    ok &= tuple(vals.shape) == (len(order), max(nv) if nv else 0, nfeat) and vals.shape == mask.shape
    ok &= tuple(tp.shape) == tuple(vals.shape[:2])
    for i in range(len(order)):
        vis = []
        for v in range(nv[i]):
            t = float(tp[i, v])
            age = "1" if abs(t - np.float32(70.25)) < 1e-9 else ("2" if abs(t - np.float32(71.5)) < 1e-9 else f"?{t}")
            vs = []
            for f in range(nfeat):
                if mask[i, v, f] == 0:
                    vs.append("nan")
                    ok &= float(vals[i, v, f]) == 0.0
                else:
                    x = float(vals[i, v, f])
                    vs.append("x" if x == 0.25 else ("y" if x == 0.75 else f"?{x}"))
            vis.append({"age": age, "vals": vs})
        ok &= bool((tp[i, nv[i]:] == 0).all()) and bool((mask[i, nv[i]:] == 0).all()) and bool((vals[i, nv[i]:] == 0).all())
        visits.append(vis)
    ok &= dataset.n_visits == sum(nv)
    ok &= int(dataset.n_observations) == int(mask.sum())
    ok &= bool(torch.equal(dataset.n_observations_per_ft.long(), mask.sum(dim=(0, 1)).long()))
    ok &= bool(set(mask.unique().tolist()) <= {0.0, 1.0})
    form = {"order": order, "visits": visits, "n_visits": int(dataset.n_visits), "n_obs": int(dataset.n_observations)}
    return form, bool(ok)


def run_case(rows, idkind, text, nfeat):
    rec = {"rows": rows, "idkind": idkind, "text": text}
    df = build_frame(rows, idkind, text, nfeat)
    snap = df.copy(deep=True)
    empty = {"order": [], "visits": [], "n_visits": 0, "n_obs": 0}
    rec.update(form=empty, form2=empty, tensors_ok=False, roundtrip_ok=False)
    with warnings.catch_warnings():
        warnings.simplefilter("ignore")
        try:
            data = Data.from_dataframe(df)
            ds = Dataset(data)
            rec["status"] = "ok"
        except LeaspyDataInputError:
            rec["status"] = "data_error"
        except Exception as e:  # noqa: BLE001
            rec["status"] = f"other_{type(e).__name__}"
        rec["input_untouched"] = bool(df.equals(snap) and list(df.dtypes) == list(snap.dtypes) and df.index.equals(snap.index)
                                      and list(df.columns) == list(snap.columns))
        if rec["status"] == "ok":
            try:
                rec["form"], rec["tensors_ok"] = project(ds, idkind, nfeat)
                back = ds.to_pandas()
                ds2 = Dataset(Data.from_dataframe(back))
                rec["form2"], ok2 = project(ds2, idkind, nfeat)
                # individuals are matched by identifier (their order is judged by the specification)
                pos = {str(i): k for k, i in enumerate(ds2.indices)}
                perm = [pos.get(str(i), -1) for i in ds.indices]
                rt = ok2 and -1 not in perm and len(perm) == len(ds2.indices)
                if rt:
                    rt = bool(ds.values.shape == ds2.values.shape and torch.allclose(ds.values, ds2.values[perm], atol=1e-6)
                              and torch.equal(ds.mask, ds2.mask[perm]) and torch.allclose(ds.timepoints, ds2.timepoints[perm], atol=1e-5))
                rec["roundtrip_ok"] = bool(rt)
            except Exception as e:  # noqa: BLE001
                rec["status"] = f"other_{type(e).__name__}"
    # the same table through a CSV file (Data.from_csv_file, identifiers read as text): same verdict, same canonical form
    rec["csv_same"] = True
    if idkind == "str" and not text and len(rows):
        import os
        import tempfile
        fd, path = tempfile.mkstemp(suffix=".csv")
        os.close(fd)
        try:
            with warnings.catch_warnings():
                warnings.simplefilter("ignore")
                snap.to_csv(path, index=False)
                try:
                    ds3 = Dataset(Data.from_csv_file(path))
                    st3 = "ok"
                except LeaspyDataInputError:
                    st3 = "data_error"
                except Exception as e:  # noqa: BLE001
                    st3 = f"other_{type(e).__name__}"
                same = st3 == rec["status"]
                if same and st3 == "ok":
                    form3, ok3 = project(ds3, idkind, nfeat)
                    same = ok3 and form3 == rec["form"]
                rec["csv_same"] = bool(same)
        finally:
            os.remove(path)
    return rec


def random_table(rnd, nfeat, max_rows, ages, vals):
    n = rnd.randint(1, max_rows)
    return [{"id": rnd.choice(["A", "B"]), "age": rnd.choice(ages), "vals": [rnd.choice(vals) for _ in range(nfeat)]} for _ in range(n)]
