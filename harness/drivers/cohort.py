"""Driver for specs/Cohort.tla: executes cohort scenarios (modify another individual, permute, single, workers) on a real model."""
from __future__ import annotations

import os
import warnings
import zlib

import numpy as np
import pandas as pd
import torch

import leaspy.models  # noqa: F401
from leaspy.io.data import Data
from leaspy.io.data.dataset import Dataset
from leaspy.models import BaseModel
from leaspy.variables.specs import IndividualLatentVariable

from .. import zoo

SCIPY_KW = dict(custom_scipy_minimize_params={"method": "Powell", "options": {"xtol": 1e-6, "ftol": 1e-10, "maxiter": 300}},
                use_jacobian=False)


def _h(s):
    return zlib.crc32(s.encode())


def individual_rows(id_, dataval, dim, long=False, events=False, precise=False):
    """Rows of one individual.  Data variants are the abstract tokens of Cohort.tla: "d0" a regular profile, "d1" ANOTHER profile
    (shifted values; a flat uninformative profile for the precisely observed cohorts; an early profile whose event is observed before
    the population time-shift for the joint model), "dbad" a value whose squared residual overflows."""
    rng = np.random.RandomState(_h(id_) % (2 ** 31))
    n = 4 + rng.randint(0, 3) if not long else int(long)
    tau = 68 + rng.rand() * 6
    ts = np.sort(62 + rng.rand(n) * 16)
    if events and dataval == "d1":
        ts = ts - 12.0               # an early profile: the event is observed before the population time-shift
    rows = []
    for k, t in enumerate(ts):
        r = {"ID": id_, "TIME": float(np.round(t, 4))}
        if events:                   # (a cohort needs one observed event; the event is at or after the last visit)
            r["EVENT_TIME"] = float(np.round(ts[-1] + (0.25 if dataval == "d1" else 1.5), 4))
            r["EVENT_BOOL"] = 1       # (every variant carries an observed event: a cohort without one is refused by the reader)
        for f in range(dim):
            y = 1 / (1 + np.exp(-(t - tau - 2 * f) / 4)) + rng.randn() * (0.003 if precise else 0.03)
            y = float(np.clip(y, 0.02, 0.98))
            if dataval == "d1":
                y = float(np.clip(y + 0.1, 0.02, 0.98)) if not precise else float(0.5 + 0.02 * np.sin(k + f))
            r[f"Y{f}"] = y
        rows.append(r)
    if dataval == "dbad":
        rows[1]["Y0"] = 1e20          # squared residual overflows single precision: non-finite attachment for this individual
    return rows


def table(cohort, dim, long_first=False, events=False, precise=False):
    rows = []
    if precise:
        for id_, dv in cohort:
            rows += individual_rows(id_, dv, dim, long=40, precise=True)
        return pd.DataFrame(rows)
    for k, (id_, dv) in enumerate(cohort):
        # "workers" scenarios: very uneven work per individual, neither increasing nor decreasing along the cohort, so that the
        # completion order - and any re-ordering of the tasks by size - differs from the submission order
        rows += individual_rows(id_, dv, dim, long=([60, 250, 5, 12][min(k, 3)] if long_first else False), events=events)
    return pd.DataFrame(rows)


class Runner:
    def __init__(self, kind, workdir, seed, precise=False):
        """precise: the fitted model is given a very small noise and the individuals 40 visits each, so that most proposals of
        the sampling-based estimators are prohibitive (acceptance ratio numerically 0); only the chains are observed then."""
        self.kind, self.seed, self.precise = kind, seed, precise
        model, data, df = zoo.make(kind, n_ind=8, seed=3)
        with warnings.catch_warnings():
            warnings.simplefilter("ignore")
            model.fit(data, "mcmc_saem", n_iter=30, seed=seed, progress_bar=False)
        self.path = os.path.join(workdir, f"cohort_model_{kind}{'_precise' if precise else ''}.json")
        model.save(self.path)
        self.events = kind.startswith("joint")
        if precise:
            import json
            d = json.load(open(self.path))
            ns = d["parameters"]["noise_std"]
            d["parameters"]["noise_std"] = [0.01] * len(ns) if isinstance(ns, list) else 0.01
            json.dump(d, open(self.path, "w"))
        self.dim = model.dimension
        self.n_chain = 25 if precise else 6
        self.cache = {}

    def data(self, df):
        return Data.from_dataframe(df, data_type="joint") if self.events else Data.from_dataframe(df)

    def observe(self, cohort, n_jobs=1, long_first=False, want=("terms", "chain", "optim")):
        key = (tuple(cohort), n_jobs, long_first, tuple(want))
        if key in self.cache:
            return self.cache[key]
        df = table(cohort, self.dim, long_first, events=self.events, precise=self.precise)
        if self.precise:
            want = tuple(w for w in want if w == "chain")
        out = {"ids": [c[0] for c in cohort]}
        with warnings.catch_warnings():
            warnings.simplefilter("ignore")
            model = BaseModel.load(self.path)
            data = self.data(df)
            ds = Dataset(data)
            if "terms" in want:
                st = model.state.clone(disable_auto_fork=True)
                model.put_data_variables(st, ds)
                for name in st.dag.sorted_variables_by_type[IndividualLatentVariable]:
                    shape = st.dag[name].get_prior_shape(st.dag)
                    base = {"tau": 70.0, "xi": 0.0}.get(name, 0.0)
                    vals = [[base + ((_h(i + name + str(k)) % 1000) / 1000.0 - 0.5) * (4.0 if name == "tau" else 0.6)
                             for k in range(int(np.prod(shape)) or 1)] for i in ds.indices]
                    st[name] = torch.tensor(vals, dtype=torch.float32)
                terms = {"attach": st["nll_attach_ind"], "regul": st["nll_regul_ind_sum_ind"]}
                out["terms"] = {i: [float(terms["attach"][k]), float(terms["regul"][k])] for k, i in enumerate(ds.indices)}
                out["totals"] = [float(st["nll_attach"]), float(st["nll_regul_ind_sum"])]
                out["sums"] = [float(terms["attach"].double().sum()), float(terms["regul"].double().sum())]
            if "chain" in want:
                # both sampling-based estimators of the same seeded chain (mean of the kept draws, lowest-loss kept draw)
                ip = model.personalize(data, "mean_posterior", n_iter=self.n_chain, seed=self.seed, progress_bar=False)
                d = ip.to_dataframe()
                ip2 = BaseModel.load(self.path).personalize(data, "mode_posterior", n_iter=self.n_chain, seed=self.seed, progress_bar=False)
                d2 = ip2.to_dataframe()
                out["chain"] = {i: d.loc[i].values.tolist() + d2.loc[i].values.tolist() for i in d.index}
                out["chain_ids"] = list(ip._indices)
            if "optim" in want:
                ip = BaseModel.load(self.path).personalize(data, "scipy_minimize", seed=self.seed, progress_bar=False, n_jobs=n_jobs, **SCIPY_KW)
                d = ip.to_dataframe()
                out["optim"] = {i: d.loc[i].values.tolist() for i in d.index}
                out["optim_ids"] = list(ip._indices)
                out["optim_cols"] = list(d.columns)
                if n_jobs > 1:
                    # + the same request on joblib's threading backend with the FIRST submitted individual made the slowest one
                    #   (a deterministic completion order that differs from the submission order; the default process backend
                    #   above leaves the completion order to the scheduler)
                    import time
                    import joblib
                    from leaspy.algo.personalize.scipy_minimize import ScipyMinimizeAlgorithm as _SM
                    orig = _SM._get_individual_parameters_patient_master
                    first = str(ds.indices[0])

                    import threading
                    from leaspy.algo.personalize import scipy_minimize as _smod
                    cur = threading.local()
                    starts = {}
                    o_min = _smod.minimize

                    def rec_min(fun, x0, *a, **k):
                        starts.setdefault(getattr(cur, "pid", "?"), np.array(x0, dtype=float).copy())
                        return o_min(fun, x0, *a, **k)

                    def slow_first(self_, state_pat, **kw):
                        cur.pid = str(kw.get("patient_id"))
                        r = orig(self_, state_pat, **kw)
                        if str(kw.get("patient_id")) == first:
                            time.sleep(0.5)
                        return r
                    _SM._get_individual_parameters_patient_master = slow_first
                    _smod.minimize = rec_min
                    try:
                        with joblib.parallel_backend("threading"):
                            ip = BaseModel.load(self.path).personalize(data, "scipy_minimize", seed=self.seed, progress_bar=False,
                                                                       n_jobs=n_jobs, **SCIPY_KW)
                        thr_starts = dict(starts)
                        # the same request without workers: the starting points (position-indexed seeded draws) are the same
                        starts.clear()
                        BaseModel.load(self.path).personalize(data, "scipy_minimize", seed=self.seed, progress_bar=False, n_jobs=1, **SCIPY_KW)
                        out["starts_same"] = bool(set(thr_starts) == set(starts) and all(np.array_equal(thr_starts[i], starts[i]) for i in starts))
                    finally:
                        _SM._get_individual_parameters_patient_master = orig
                        _smod.minimize = o_min
                    d = ip.to_dataframe()
                    out["optim_thr"] = {i: d.loc[i].values.tolist() for i in d.index}
                    out["optim_thr_ids"] = list(ip._indices)
        self.cache[key] = out
        return out


def _same(a, b, exact, tol=None):
    a, b = np.asarray(a, dtype=float), np.asarray(b, dtype=float)
    if a.shape != b.shape:
        return False
    if exact:
        return bool(np.array_equal(a, b, equal_nan=True))
    if tol is not None:
        return bool(np.all(np.abs(a - b) <= tol) or np.array_equal(a, b, equal_nan=True))
    return bool(np.allclose(a, b, rtol=1e-5, atol=1e-6, equal_nan=True))


def run_scenario(runner: Runner, ids, data, scen, j=0, newdata="", perm=()):
    rec = {"ids": list(ids), "data": list(data), "scen": scen, "j": int(j), "newdata": newdata, "perm": list(perm)}
    flags = dict(terms_same=False, totals_are_sums=False, chain_same=False, optim_same=False, totals_same=False)
    rec.update(flags, unchanged_ids=[], output_ids=[], status="ok")
    try:
        base_c = list(zip(ids, data))
        if scen == "modify":
            new_c = [(i, (newdata if k == j - 1 else d)) for k, (i, d) in enumerate(base_c)]
            unchanged = [i for k, i in enumerate(ids) if k != j - 1]
            base, new = runner.observe(base_c), runner.observe(new_c)
            exact, tol = True, None
        elif scen == "permute":
            new_c = [base_c[p - 1] for p in perm]
            unchanged = list(ids)
            base, new = runner.observe(base_c, want=("terms", "optim")), runner.observe(new_c, want=("terms", "optim"))
            exact, tol = False, None
        elif scen == "single":
            new_c = [base_c[j - 1]]
            unchanged = [ids[j - 1]]
            base, new = runner.observe(base_c, want=("terms", "optim")), runner.observe(new_c, want=("terms", "optim"))
            exact, tol = False, None
        else:  # workers
            new_c = base_c
            unchanged = list(ids)
            base = runner.observe(base_c, n_jobs=1, long_first=True, want=("optim",))
            new = runner.observe(base_c, n_jobs=int(j), long_first=True, want=("optim",))
            # worker processes run with their own thread configuration: float32 reductions differ in the last bits and the
            # optimiser amplifies this (measured 1e-3 on tau on the unchanged tree), so the optimum is compared with tolerance
            exact, tol = False, None
        rec["unchanged_ids"] = unchanged
        rec["output_ids"] = [str(i) for i in new.get("optim_ids", new["ids"])]
        if "terms" in base:
            rec["terms_same"] = all(_same(base["terms"][i], new["terms"][i], exact) for i in unchanged)
            fin = lambda o: all(np.isfinite(o["totals"]))   # noqa: E731
            rec["totals_are_sums"] = all((not fin(o)) or _same(o["totals"], o["sums"], False) for o in (base, new))
            rec["totals_same"] = _same(base["totals"], new["totals"], False) if scen == "permute" else True
        else:
            rec["terms_same"] = rec["totals_are_sums"] = rec["totals_same"] = True
        rec["chain_same"] = all(_same(base["chain"][i], new["chain"][i], True) for i in unchanged) if "chain" in base else True
        # optimisation results: bit-identical when positions (hence seeded starting points) are unchanged, otherwise the
        # optimum is compared with a tolerance (tau 0.1, others 0.05)
        if "optim" not in base:
            rec["optim_same"] = True
        elif exact:
            rec["optim_same"] = all(_same(base["optim"][i], new["optim"][i], True) for i in unchanged)
        else:
            tolv = np.array([0.1 if c.startswith("tau") else 0.05 for c in base["optim_cols"]])
            # an individual whose attachment is not finite has no optimum to compare (its objective is inf everywhere)
            dv = dict(zip(ids, data))
            rec["optim_same"] = all(_same(base["optim"][i], new["optim"][i], False, tol=tolv) for i in unchanged if dv[i] != "dbad")
            if "optim_thr" in new:
                rec["optim_same"] = rec["optim_same"] and new.get("starts_same", True) and new["optim_thr_ids"] == new["optim_ids"] and all(
                    _same(base["optim"][i], new["optim_thr"][i], False, tol=tolv) for i in unchanged if dv[i] != "dbad")
    except Exception as e:  # noqa: BLE001
        rec["status"] = f"{type(e).__name__}: {str(e)[:150]}"
    return rec


def reused_algorithm_independent(runner: Runner):
    """An algorithm object that already served another cohort gives the individuals of the next cohort what a fresh object gives
    them (nothing learnt on other individuals is carried over to them).  Returns (ok, detail)."""
    from leaspy.algo import AlgorithmSettings, algorithm_factory
    out = {}
    with warnings.catch_warnings():
        warnings.simplefilter("ignore")
        target = runner.data(table([("8", "d0"), ("9", "d0"), ("10", "d1")], runner.dim, events=runner.events))
        decoys = {"X": [("11", "d1"), ("8", "d1"), ("9", "d1")], "Y": [("10", "d0"), ("11", "d0"), ("9", "d1")]}
        for label in ("fresh", "X", "Y"):
            algo = algorithm_factory(AlgorithmSettings("mean_posterior", n_iter=40, seed=runner.seed, progress_bar=False))
            model = BaseModel.load(runner.path)
            if label != "fresh":
                algo.run(model, Dataset(runner.data(table(decoys[label], runner.dim, events=runner.events))))
            res = algo.run(model, Dataset(target))
            ip = res[0] if isinstance(res, tuple) else res
            out[label] = ip.to_dataframe().sort_index().values
    ok = bool(np.array_equal(out["X"], out["Y"]) and np.array_equal(out["X"], out["fresh"]))
    return ok, {k: np.round(v, 4).tolist() for k, v in out.items()}
