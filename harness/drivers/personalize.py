"""Driver for specs/Personalize.tla: records real personalizations (sampling-based bookkeeping, optimisation monotonicity)."""
from __future__ import annotations

import warnings
from fractions import Fraction

import numpy as np
import torch

import leaspy.algo.personalize.scipy_minimize as sm_mod
import leaspy.models  # noqa: F401
from leaspy.algo import AlgorithmSettings, algorithm_factory
from leaspy.exceptions import LeaspyAlgoInputError
from leaspy.io.data import Data
from leaspy.io.data.dataset import Dataset
from leaspy.variables.specs import IndividualLatentVariable

from .. import zoo

_FITTED = {}


def fitted(kind, seed):
    if (kind, seed) not in _FITTED:
        with warnings.catch_warnings():
            warnings.simplefilter("ignore")
            m, data, df = zoo.make(kind, n_ind=7, seed=seed % 5)
            m.fit(data, "mcmc_saem", n_iter=25, seed=seed, progress_bar=False)
        _FITTED[(kind, seed)] = m
    return _FITTED[(kind, seed)]


def cohort_for(kind, seed, variant):
    ctor, dkw = zoo.CONFIGS[kind]
    dkw = dict(dkw)
    df = zoo.cohort(n_ind=5, seed=seed, missing=0.3 if variant == "missing" else 0.0, **dkw)
    if variant == "one_visit":
        first = df["ID"].iloc[0]
        keep = df["ID"] != first
        keep.iloc[0] = True
        df = df[keep].reset_index(drop=True)
    if variant == "unsorted_ids":
        ren = {i: n for i, n in zip(sorted(df["ID"].unique()), ["9", "10", "8", "100", "b"])}
        df["ID"] = df["ID"].map(ren)
    if variant == "nan_subject":
        # one subject whose scores are all missing (kept: drop_full_nan=False) - for the joint model it was seen early and its
        # event is observed before the population time-shift (its only information is the event)
        first = df["ID"].iloc[0]
        rows = df["ID"] == first
        ycols = [c for c in df.columns if c.startswith("Y")]
        df.loc[rows, ycols] = np.nan
        if dkw.get("events"):
            df.loc[rows, "TIME"] = df.loc[rows, "TIME"] - 15.0
            df.loc[rows, "EVENT_TIME"] = float(df.loc[rows, "TIME"].max()) + 0.2
            df.loc[rows, "EVENT_BOOL"] = True if df["EVENT_BOOL"].dtype == bool else 1
        kw = dict(drop_full_nan=False)
        return df, (Data.from_dataframe(df, data_type="joint", **kw) if dkw.get("events") else Data.from_dataframe(df, **kw))
    return df, (Data.from_dataframe(df, data_type="joint") if dkw.get("events") else Data.from_dataframe(df))


def _ranks(x):
    vals = sorted(set(float(v) for v in x))
    pos = {v: i for i, v in enumerate(vals)}
    return [pos[float(v)] for v in x]


def common_checks(rec, ips, ids_in, model):
    rec["ids_in"] = [str(i) for i in ids_in]
    rec["ids_out"] = [str(i) for i in ips._indices]
    rec["one_set_each"] = len(ips._indices) == len(set(ips._indices)) == len(ids_in)
    fin, shp = True, True
    src = int(getattr(model, "source_dimension", 0) or 0)
    for i in ips._indices:
        d = ips[i]
        for k, v in d.items():
            a = np.atleast_1d(np.asarray(v, dtype=float))
            fin &= bool(np.isfinite(a).all())
            shp &= a.size == (src if k == "sources" else 1)
        shp &= set(d) == ({"tau", "xi"} | ({"sources"} if src else set()))
    rec["all_finite"], rec["shapes_ok"] = bool(fin), bool(shp)


def run_sampling(kind, algo_name, n, frac_tenths, annealing, variant, seed):
    rec = {"type": "sampling", "kind": kind, "algo": algo_name, "n": n, "frac": frac_tenths, "annealing": annealing, "variant": variant,
           "budget": "-", "values_belong_to_ids": True,
           "status": "ok", "nb": 0, "nb_expected": int((Fraction(frac_tenths, 10) * n).__floor__()), "kept": [], "chosen": [],
           "loss_ranks": [], "mean_ok": False, "mode_values_ok": False, "ids_in": [], "ids_out": [], "one_set_each": False,
           "all_finite": False, "shapes_ok": False, "never_worse": True}
    if int((frac_tenths / 10) * n) != rec["nb_expected"]:
        rec["status"] = "skipped_float_ambiguity"
        return rec
    model = fitted(kind, 3)
    df, data = cohort_for(kind, seed, variant)
    dataset = Dataset(data)
    kw = dict(n_iter=n, n_burn_in_iter_frac=frac_tenths / 10, seed=seed, progress_bar=False)
    if annealing:
        kw["annealing"] = dict(do_annealing=True, initial_temperature=4.0, n_plateau=2, n_iter=max(1, n // 2), n_iter_frac=None)
    chain, captured = [], {}
    try:
        with warnings.catch_warnings():
            warnings.simplefilter("ignore")
            settings = AlgorithmSettings({"mean": "mean_posterior", "mode": "mode_posterior"}[algo_name], **kw)
            algo = algorithm_factory(settings)
            rec["nb"] = int(algo.algo_parameters["n_burn_in_iter"])
            names = sorted(model.dag.sorted_variables_by_type[IndividualLatentVariable])
            o_temp = algo._update_temperature

            def temp():
                st = model.state
                chain.append({"vals": {v: st[v].clone() for v in names}, "att": st.get_tensor_value("nll_attach_ind").clone(),
                              "reg": st.get_tensor_value("nll_regul_ind_sum_ind").clone()})
                return o_temp()
            algo._update_temperature = temp
            o_comp = algo._compute_individual_parameters_from_samples_torch

            def comp(values, attachments, regularities):
                out = o_comp(values, attachments, regularities)
                captured.update(values=values, att=attachments, reg=regularities, out=out)
                return out
            algo._compute_individual_parameters_from_samples_torch = comp
            ips = algo.run(model, dataset)
    except LeaspyAlgoInputError:
        rec["status"] = "refused"
        return rec
    except RuntimeError as e:
        rec["status"] = "empty_kept_set_crash" if "non-empty TensorList" in str(e) else f"RuntimeError: {str(e)[:80]}"
        return rec
    except Exception as e:  # noqa: BLE001
        rec["status"] = f"{type(e).__name__}: {str(e)[:100]}"
        return rec
    common_checks(rec, ips, dataset.indices, model)
    # which iterations were kept: match every kept draw with the recorded chain (bit-equal on every variable)
    vals = captured["values"]
    first = names[0]
    kept = []
    for j in range(vals[first].shape[0]):
        match = [k + 1 for k, c in enumerate(chain) if all(torch.equal(c["vals"][v], vals[v][j]) for v in names)]
        kept.append(match[-1] if len(match) == 1 else (match[0] if match else -1))
    rec["kept"] = kept
    if any(k < 0 for k in kept):
        return rec
    # the loss of every kept draw is read from the chain itself (attachment + regularity of the state after that iteration),
    # not from what the algorithm handed to its estimator
    loss = torch.stack([(chain[k - 1]["att"] + chain[k - 1]["reg"]).double() for k in kept])        # (n_kept, n_ind)
    n_ind = loss.shape[1]
    rec["loss_ranks"] = [_ranks(loss[:, i].tolist()) for i in range(n_ind)]
    out = captured["out"]
    rec["mean_ok"] = all(torch.equal(out[v], vals[v].mean(dim=0)) for v in names)
    chosen, mv_ok = [], True
    for i in range(n_ind):
        js = [j for j in range(vals[first].shape[0]) if all(torch.equal(vals[v][j, i], out[v][i]) for v in names)]
        # the earliest kept draw with these values
        chosen.append(kept[js[0]] if js else -1)
        mv_ok &= bool(js)
    rec["chosen"] = chosen
    rec["mode_values_ok"] = bool(mv_ok) if algo_name == "mode" else True
    # the returned container holds the computed tensors (single precision)
    d = ips.to_dataframe()
    for ii, i in enumerate(ips._indices):
        got = np.concatenate([np.atleast_1d(np.asarray(ips[i][v], dtype=np.float32)).reshape(-1) for v in names])
        exp = np.concatenate([out[v][ii].detach().numpy().astype(np.float32).reshape(-1) for v in names])
        if not np.array_equal(got, exp):
            rec["mean_ok"] = False
            rec["mode_values_ok"] = False
    _ = d
    return rec


def run_optim(kind, variant, seed, use_jacobian, budget=None):
    rec = {"type": "optim", "kind": kind, "algo": "scipy", "n": 0, "frac": 0, "annealing": False, "variant": variant, "status": "ok",
           "budget": budget or "default", "values_belong_to_ids": False,
           "nb": 0, "nb_expected": 0, "kept": [], "chosen": [], "loss_ranks": [], "mean_ok": True, "mode_values_ok": True,
           "ids_in": [], "ids_out": [], "one_set_each": False, "all_finite": False, "shapes_ok": False, "never_worse": False}
    model = fitted(kind, 3)
    df, data = cohort_for(kind, seed, variant)
    dataset = Dataset(data)
    calls = []
    o_min = sm_mod.minimize

    def minimize(fun, *a, x0=None, args=(), jac=None, **kw):
        res = o_min(fun, *a, x0=x0, args=args, jac=jac, **kw)
        f0 = fun(np.asarray(x0, dtype=float), *args)
        f1 = fun(np.asarray(res.x, dtype=float), *args)
        f0 = f0[0] if isinstance(f0, tuple) else f0
        f1 = f1[0] if isinstance(f1, tuple) else f1
        calls.append((float(f0), float(f1)))
        return res
    sm_mod.minimize = minimize
    try:
        with warnings.catch_warnings():
            warnings.simplefilter("ignore")
            kw = {}
            if budget == "one_iteration":
                # an optimiser that stops on its iteration budget (reported as a convergence issue), result must still be usable
                kw["custom_scipy_minimize_params"] = dict(method="Powell", options=dict(maxiter=1))
            ips = model.personalize(data, "scipy_minimize", seed=seed, progress_bar=False, use_jacobian=use_jacobian, **kw)
    except Exception as e:  # noqa: BLE001
        rec["status"] = f"{type(e).__name__}: {str(e)[:100]}"
        return rec
    finally:
        sm_mod.minimize = o_min
    common_checks(rec, ips, dataset.indices, model)
    # the objective of every individual AT THE RETURNED POINT, on its own data (cohort state, per-individual terms)
    try:
        st = model.state.clone(disable_auto_fork=True)
        model.put_data_variables(st, dataset)
        for v in sorted(model.dag.sorted_variables_by_type[IndividualLatentVariable]):
            rows = [np.atleast_1d(np.asarray(ips[i][v], dtype=np.float32)).reshape(-1) for i in dataset.indices]
            st[v] = torch.tensor(np.stack(rows))
        own = (st.get_tensor_value("nll_attach_ind") + st.get_tensor_value("nll_regul_ind_sum_ind")).double().reshape(-1).tolist()
    except Exception as e:  # noqa: BLE001
        rec["status"] = f"own objective: {type(e).__name__}: {str(e)[:100]}"
        return rec
    ok_n = len(calls) == dataset.n_individuals
    # never worse than the starting point; and the returned point is the optimiser's point of THAT individual
    rec["never_worse"] = ok_n and all(o <= f0 + 1e-4 * (1 + abs(f0)) for o, (f0, f1) in zip(own, calls))
    rec["values_belong_to_ids"] = ok_n and all(abs(o - f1) <= 2e-3 * (1 + abs(f1)) for o, (f0, f1) in zip(own, calls))
    rec["objective_pairs"] = [[round(a, 4), round(b, 4), round(o, 4)] for (a, b), o in list(zip(calls, own))[:3]]
    return rec
