"""Driver for specs/Saem.tla: runs real MCMC-SAEM fits under a recorder and lets TLC validate the traces."""
from __future__ import annotations

import json
import os
import zlib
import random
import re
import tempfile
import warnings
from fractions import Fraction

import numpy as np
import torch

import leaspy.models  # noqa: F401
from leaspy.algo import AlgorithmSettings, algorithm_factory
from leaspy.exceptions import LeaspyAlgoInputError
from leaspy.io.data.dataset import Dataset
from leaspy.variables.specs import (
    IndividualLatentVariable,
    LatentVariableInitType,
    ModelParameter,
    PopulationLatentVariable,
)
from leaspy.variables.state import State

from .. import tlc, zoo


def frac_ambiguous(tenths, n):
    """int(frac * n) computed in binary floating point differs from the exact floor of the decimal fraction."""
    exact = (Fraction(tenths, 10) * n).__floor__()
    return int((tenths / 10) * n) != exact


def settings_kwargs(cfg, seed):
    # (a power <<0, 0>> is "not a number": neither > 1/2 nor <= 1 in the specification's rational order - refused)
    kw = dict(n_iter=cfg.get("pilot_n") or cfg["n"], seed=seed, progress_bar=False, random_order_variables=cfg["rnd"],
              burn_in_step_power=(cfg["pw"][0] / cfg["pw"][1]) if cfg["pw"][1] else float("nan"))
    if cfg["burn"][0] == "count":
        kw["n_burn_in_iter"] = cfg["burn"][1]
        kw["n_burn_in_iter_frac"] = None
    elif cfg["burn"][0] == "frac8":
        kw["n_burn_in_iter_frac"] = cfg["burn"][1] / 8
    else:
        kw["n_burn_in_iter_frac"] = cfg["burn"][1] / 10
    if cfg.get("sampler_pop"):
        kw["sampler_pop"] = cfg["sampler_pop"]
    ann = cfg.get("ann")
    if ann:
        a = dict(do_annealing=True, initial_temperature=ann["t0"][0] / ann["t0"][1], n_plateau=ann["p"])
        if ann["spec"][0] == "count":
            a["n_iter"] = ann["spec"][1]
            a["n_iter_frac"] = None
        else:
            a["n_iter_frac"] = ann["spec"][1] / 10
        kw["annealing"] = a
    return kw


def log_kwargs(log, workdir):
    if not log or not log.get("on"):
        return {}
    kw = {}
    for key, name in (("print", "print_periodicity"), ("save", "save_periodicity"), ("plot", "plot_periodicity"),
                      ("patients", "plot_patient_periodicity")):
        if log.get(key):
            kw[name] = log[key]
    if log.get("path"):
        # (a relative path is relative to the directory current when the logs are configured - the scratch directory)
        path = os.path.join(workdir, "logs") if not log.get("relative") else "logs"
        if log.get("dir") in ("empty", "nonempty"):
            os.makedirs(path, exist_ok=True)
            if log["dir"] == "nonempty":
                os.makedirs(os.path.join(path, "plots"), exist_ok=True)
                open(os.path.join(path, "plots", "old.txt"), "w").write("x")
        kw["path"] = path
    if log.get("overwrite"):
        kw["overwrite_logs_folder"] = True
    # "not given" is spelled in both ways the interface allows: the keyword left out, or given as None (the documented default)
    if zlib.crc32(repr(sorted((k, str(v)) for k, v in log.items())).encode()) % 2 == 0:
        for name in ("path", "print_periodicity", "save_periodicity", "plot_periodicity", "plot_patient_periodicity"):
            kw.setdefault(name, None)
        if (log.get("print") or 0) % 2 == 0:
            kw.setdefault("overwrite_logs_folder", False)
    return kw


def _rng_snapshot():
    return (torch.get_rng_state().numpy().tobytes(), random.getstate(), np.random.get_state()[1].tobytes(),
            np.random.get_state()[2])


def _flat(d):
    out = {}
    from leaspy.utils.weighted_tensor import WeightedTensor
    for k, v in d.items():
        if isinstance(v, WeightedTensor):
            v = v.weighted_value
        out[k] = v.detach().double().reshape(-1) if isinstance(v, torch.Tensor) else torch.tensor([float(v)], dtype=torch.double)
    return out


def _same(a, b):
    """Bit-equality of two flat statistics, NaN entries (e.g. an empty cluster of the mixture model) compared as equal."""
    return a.shape == b.shape and torch.equal(a.isnan(), b.isnan()) and torch.equal(torch.nan_to_num(a), torch.nan_to_num(b))


def observe_combination(prev_S, s_k, S, power):
    """Observed facts about S_k: memoryless?, step index m, consistency of all components with that step."""
    fs, fS = _flat(s_k), _flat(S)
    memoryless = "yes" if all(_same(fs[k], fS[k]) for k in fS) else "no"
    if prev_S is None:
        return memoryless, 0, True
    fP = _flat(prev_S)
    if memoryless == "yes":
        # if the new statistics equal the previous averaged ones, both rules give the same result: not observable
        if all(_same(fs[k], fP[k]) for k in fS):
            return "amb", -1, True
        return memoryless, 0, True
    # component with the largest relative change between s_k and S_{k-1}
    best, best_rel = None, 0.0
    for key in fS:
        d = (fs[key] - fP[key]).abs()
        scale = fP[key].abs() + fs[key].abs() + 1e-12
        rel = d / scale
        rel[~torch.isfinite(rel)] = 0.0
        i = int(torch.argmax(rel))
        if float(rel[i]) > best_rel:
            best, best_rel = (key, i), float(rel[i])
    if best is None or best_rel < 1e-4:
        return memoryless, -1, True       # nothing moved: the step is not observable (counted, not judged)
    key, i = best
    e_obs = float((fS[key][i] - fP[key][i]) / (fs[key][i] - fP[key][i]))
    if not (0 < e_obs <= 1.0 + 1e-6):
        return memoryless, -2, False
    m_obs = int(round(e_obs ** (-1.0 / power)))
    if m_obs < 1:
        return memoryless, -2, False
    e = float(m_obs) ** (-power)
    consistent = True
    for key in fS:
        ref = fP[key] * (1.0 - e) + e * fs[key]
        fin = torch.isfinite(ref) & torch.isfinite(fS[key])
        if not torch.equal(torch.isfinite(ref), torch.isfinite(fS[key])):
            consistent = False
            break
        tol = 1e-5 * (fP[key].abs() + fs[key].abs() + 1e-6)
        if bool(((fS[key] - ref).abs()[fin] > tol[fin]).any()):
            consistent = False
            break
    return memoryless, m_obs, consistent


def closed_forms(state, stats, expected_probs):
    """MStep.tla closed forms on a real fit: noise level from the statistics in force and the DATA mask (not the weights the
    statistics carry), mixture probabilities = mean responsibilities, summing to one.  Returns (noise_rule, probs_rule)."""
    noise_rule, probs_rule = "na", "na"
    try:
        if "noise_std" in state.dag and "y_x_model" in stats and "model_x_model" in stats and "y" in state.dag:
            y = state["y"]
            mask = (y.weight != 0) if getattr(y, "weight", None) is not None else torch.ones_like(y.value, dtype=torch.bool)
            yv = torch.where(mask, y.value, torch.zeros_like(y.value)).double()

            def val(x):
                v = (x.value if hasattr(x, "value") else x).double()
                return torch.where(mask, torch.nan_to_num(v), torch.zeros_like(v))
            a, b = val(stats["y_x_model"]), val(stats["model_x_model"])
            got = state["noise_std"].double().reshape(-1)
            if got.numel() == 1:
                exp = (((yv ** 2).sum() - 2 * a.sum() + b.sum()) / mask.sum().double()).clamp(min=0).sqrt().reshape(-1)
            else:
                exp = (((yv ** 2).sum(dim=(0, 1)) - 2 * a.sum(dim=(0, 1)) + b.sum(dim=(0, 1))) / mask.sum(dim=(0, 1)).double()).clamp(min=0).sqrt()
            ok = got.shape == exp.shape and bool(((got - exp).abs() <= 2e-4 * (exp.abs() + 1e-3)).all())
            noise_rule = "ok" if ok else f"differs: noise_std {[round(float(x), 6) for x in got]} vs RMS residual over observed entries {[round(float(x), 6) for x in exp]}"
    except Exception as e:  # noqa: BLE001
        noise_rule = f"not evaluable: {type(e).__name__}: {str(e)[:80]}"
    try:
        if "probs" in state.dag and expected_probs is not None:
            got = state["probs"].double().reshape(-1)
            if not bool(torch.isfinite(expected_probs).all()):
                # the state the rule is evaluated on is itself non-finite (a tiny cohort whose clusters degenerated): the rule
                # cannot be judged on it
                return noise_rule, "na"
            ok = got.shape == expected_probs.shape and abs(float(got.sum()) - 1.0) <= 1e-5 and bool(((got - expected_probs).abs() <= 1e-5).all())
            probs_rule = "ok" if ok else f"differs: probs {[round(float(x), 6) for x in got]} (sum {float(got.sum()):.6f}) vs mean responsibilities {[round(float(x), 6) for x in expected_probs]}"
    except Exception as e:  # noqa: BLE001
        probs_rule = f"not evaluable: {type(e).__name__}: {str(e)[:80]}"
    return noise_rule, probs_rule


def mix_pre(state):
    """Pre-step quantities the mixture rules of MixStep.tla are functions of: responsibilities, latent values, cluster means."""
    try:
        if "probs" not in state.dag or "nll_regul_ind_sum_ind" not in state.dag:
            return None
        ll = state["nll_regul_ind_sum_ind"]
        ll = -(ll.value if hasattr(ll, "value") else ll).double()
        if ll.dim() != 2:
            return None
        pre = {"r": torch.softmax(ll.clamp(min=-100.0), dim=1), "x": {}, "old": {}}
        for ip in ("tau", "xi", "sources"):
            if ip in state.dag and f"{ip}_mean" in state.dag:
                pre["x"][ip] = state[ip].double().clone()
                pre["old"][ip] = state[f"{ip}_mean"].double().clone()
        return pre
    except Exception:  # noqa: BLE001
        return None


def mix_rule(state, stats, pre, burn):
    """MixStep.tla on a real mixture fit: cluster means = responsibility-weighted averages of the latent values, cluster
    dispersions = mean squared deviation of the statistics from the pre-step cluster mean (sample std in the memory-less phase)."""
    if pre is None:
        return "na"
    try:
        r = pre["r"]
        if not bool(torch.isfinite(r).all()):
            return "na"
        for ip, x in pre["x"].items():
            if not bool(torch.isfinite(x).all()):
                return "na"
            got = state[f"{ip}_mean"].double()
            if x.shape[1] == 1 and got.dim() == 1:
                exp = (r * x).sum(dim=0) / r.sum(dim=0)
            else:
                exp = (x.unsqueeze(-1) * r.unsqueeze(1)).sum(dim=0) / r.sum(dim=0)
            if got.shape != exp.shape or not bool(((got - exp).abs() <= 1e-4 * (1 + exp.abs())).all()):
                return f"differs: {ip}_mean {got.reshape(-1).tolist()[:4]} vs responsibility-weighted mean {exp.reshape(-1).tolist()[:4]}"
            if f"{ip}_std" in state.dag and state[f"{ip}_std"].dim() == 1 and state[f"{ip}_std"].numel() == r.shape[1] and x.shape[1] == 1:
                gs = state[f"{ip}_std"].double()
                if burn:
                    es = x.std(dim=0).expand(r.shape[1])
                else:
                    v = (stats[ip].value if hasattr(stats[ip], "value") else stats[ip]).double()
                    v2 = (stats[f"{ip}_sqr"].value if hasattr(stats[f"{ip}_sqr"], "value") else stats[f"{ip}_sqr"]).double()
                    old = pre["old"][ip]
                    es = (v2.mean(dim=0) - 2 * old * v.mean(dim=0) + old ** 2).clamp(min=0).sqrt().reshape(-1)
                if not bool(torch.isfinite(es).all()):
                    continue
                if gs.shape != es.shape or not bool(((gs - es).abs() <= 1e-4 * (1 + es.abs())).all()):
                    return f"differs: {ip}_std {gs.tolist()} vs dispersion rule {es.tolist()} (burn={burn})"
        return "ok"
    except Exception as e:  # noqa: BLE001
        return f"not evaluable: {type(e).__name__}: {str(e)[:80]}"


def pop_at_mode(model):
    st = model.state
    for name, var in st.dag.sorted_variables_by_type.get(PopulationLatentVariable, {}).items():
        mode = var.get_init_func(LatentVariableInitType.PRIOR_MODE).call(st)
        if not torch.equal(st[name], mode.to(st[name].dtype) if isinstance(mode, torch.Tensor) else torch.as_tensor(mode)):
            return False
    return True


def run_config(model_name, cfg, seed, workdir, n_ind=6, want_params=False, compare_to=None, reuse_algo=False, via_file=False,
               cohort_attempt=None):
    """Run one real fit under the recorder (see _run_config).  A tiny cohort on which the calibration itself degenerates
    (LeaspyConvergenceError: a variance collapsing to zero) says nothing about the schedule: another cohort is drawn
    (info['cohort_attempt'] says which one was used; pass it back as cohort_attempt to run on the same cohort again)."""
    attempts = range(4) if cohort_attempt is None else [cohort_attempt]
    for attempt in attempts:
        events, info = _run_config(model_name, cfg, seed, workdir, n_ind=n_ind, want_params=want_params, compare_to=compare_to,
                                   reuse_algo=reuse_algo, via_file=via_file, cohort_seed=(seed % 5) + 7 * attempt)
        info["cohort_attempt"] = attempt
        degenerate = any(e["op"] == "RunEnd" and e.get("exc") == "LeaspyConvergenceError" for e in events)
        if not degenerate:
            return events, info
    return events, info


def _run_config(model_name, cfg, seed, workdir, n_ind=6, want_params=False, compare_to=None, reuse_algo=False, via_file=False, cohort_seed=0):
    """Run one real fit under the recorder.  Returns (events, info).  cfg may hold 'missing' (fraction of entries missing inside
    visits) and 'starve' (mixture model: the second cluster is placed far from every individual before the run)."""
    events = []
    model, data, df = zoo.make(model_name, n_ind=n_ind, seed=cohort_seed, missing=cfg.get("missing", 0.0))
    dataset = Dataset(data)
    ev0 = {"op": "RunStart", "n": cfg["n"], "burn": list(cfg["burn"]), "pw": list(cfg["pw"]), "rnd": cfg["rnd"],
           "ann_on": bool(cfg.get("ann")), "ann_spec": ["count", 0], "ann_p": 1, "ann_t0": [1, 1]}
    if cfg.get("ann"):
        ev0.update(ann_spec=list(cfg["ann"]["spec"]), ann_p=cfg["ann"]["p"], ann_t0=list(cfg["ann"]["t0"]))
    log = cfg.get("log") or {}
    ev0.update(log_on=bool(log.get("on")), log_print=log.get("print", 0), log_save=log.get("save", 0),
               log_plot=log.get("plot", 0), log_patients=log.get("patients", 0), log_path=bool(log.get("path")),
               log_dir=log.get("dir", "absent"), log_overwrite=bool(log.get("overwrite")))
    info = {"params": None, "exception": None}
    cwd = os.getcwd()
    os.chdir(workdir)     # a default output folder (no path given, saving on) lands in the scratch directory
    try:
        with warnings.catch_warnings():
            warnings.simplefilter("ignore")
            try:
                settings = AlgorithmSettings("mcmc_saem", **settings_kwargs(cfg, seed))
                if via_file:
                    # the settings travel through a JSON file (AlgorithmSettings.save / load): same run expected
                    fpath = os.path.join(workdir, "algo_settings.json")
                    settings.save(fpath)
                    settings = AlgorithmSettings.load(fpath)
                lkw = log_kwargs(log, workdir)
                if lkw:
                    settings.set_logs(**lkw)
                if log.get("relative"):
                    # the caller moves to another directory between configuring the logs and running
                    os.makedirs(os.path.join(workdir, "elsewhere"), exist_ok=True)
                    os.chdir(os.path.join(workdir, "elsewhere"))
                if cfg.get("pilot_n"):
                    # the settings object first serves a pilot run with another number of iterations, then the caller changes
                    # n_iter on the same object: the run under observation is configured by the settings as they now read
                    pm, pdata, _ = zoo.make(model_name, n_ind=n_ind, seed=cohort_seed)
                    palgo = algorithm_factory(settings)
                    pds = Dataset(pdata)
                    pm.initialize(pds)
                    palgo.run(pm, pds)
                    settings.parameters["n_iter"] = cfg["n"]
                algo = algorithm_factory(settings)
                if cfg.get("post_load") is not None:
                    # an explicit count given after construction, through the algorithm's own load_parameters
                    algo.load_parameters({"n_burn_in_iter": int(cfg["post_load"])})
                    ev0["burn"] = ["count", int(cfg["post_load"])]
            except LeaspyAlgoInputError as e:
                ev0.update(outcome="refused", nb=0, na=0)
                info["exception"] = repr(e)
                events.append(ev0)
                return events, info
            for run_no in range(2 if reuse_algo else 1):
                if run_no == 1:
                    # the same algorithm object calibrates a second, fresh model (supported use): a new run for the specification
                    model, data, df = zoo.make(model_name, n_ind=n_ind, seed=cohort_seed)
                    ev0 = dict(ev0)
                    if info["exception"] is not None:
                        break
                rec = _FitRecorder(algo, model, events, cfg)
                rec.install()
                try:
                    if not model.is_initialized:
                        model.initialize(dataset)
                        if cfg.get("starve") and "tau_mean" in model.state.dag and model.state["tau_mean"].numel() > 1:
                            tm = model.state["tau_mean"].clone()
                            tm.reshape(-1)[1] = 150.0
                            model.state["tau_mean"] = tm
                    ev0.update(outcome="run", nb=int(algo.algo_parameters["n_burn_in_iter"]),
                               na=int((algo.algo_parameters.get("annealing") or {}).get("n_iter") or 0))
                    events.append(ev0)
                    if cfg.get("dtype64"):
                        # process history: somebody switched torch's default dtype before this run
                        torch.set_default_dtype(torch.float64)
                    try:
                        algo.run(model, dataset)
                    finally:
                        if cfg.get("dtype64"):
                            torch.set_default_dtype(torch.float32)
                    same = True
                    if compare_to is not None:
                        cur = {k: np.asarray(v) for k, v in model.parameters.items()}
                        same = set(cur) == set(compare_to) and all(
                            cur[k].shape == compare_to[k].shape and np.array_equal(cur[k], compare_to[k], equal_nan=True) for k in cur)
                    events.append({"op": "RunEnd", "outcome": "done", "pop_at_mode": pop_at_mode(model),
                                   "same_as_baseline": bool(same)})
                except LeaspyAlgoInputError as e:
                    info["exception"] = repr(e)
                    if rec.iterations_started == 0:
                        ev0["outcome"] = "refused"
                    else:
                        events.append({"op": "RunEnd", "outcome": "crashed", "pop_at_mode": False, "exc": type(e).__name__,
                                       "same_as_baseline": False})
                except Exception as e:  # noqa: BLE001 - any crash of an accepted configuration is an observation
                    info["exception"] = repr(e)
                    events.append({"op": "RunEnd", "outcome": "crashed", "pop_at_mode": False, "exc": type(e).__name__,
                                   "same_as_baseline": False})
                finally:
                    rec.uninstall()
            if want_params:
                info["params"] = {k: np.asarray(v).copy() for k, v in model.parameters.items()} if info["exception"] is None else None
            info["vars"] = rec.vars
            info["params_names"] = rec.params
            info["temps"] = rec.temps
    finally:
        os.chdir(cwd)
    return events, info


class _FitRecorder:
    def __init__(self, algo, model, events, cfg):
        self.algo, self.model, self.events, self.cfg = algo, model, events, cfg
        self.iterations_started = 0
        self.order = []
        self.s_k = None
        self.steps = None
        self.vars = []
        self.params = []
        self.temps = []
        self._undo = []
        self.emitted = None

    def _patch(self, obj, name, new):
        had = name in obj.__dict__ if hasattr(obj, "__dict__") else False
        old = obj.__dict__.get(name) if had else None
        setattr(obj, name, new)

        def undo():
            if had:
                setattr(obj, name, old)
            else:
                try:
                    delattr(obj, name)
                except AttributeError:
                    pass
        self._undo.append(undo)

    def uninstall(self):
        for u in reversed(self._undo):
            u()
        self._undo = []

    def install(self):
        algo, model = self.algo, self.model
        rec = self

        orig_init_samplers = algo._initialize_samplers

        def init_samplers(state, dataset):
            orig_init_samplers(state, dataset)
            dag = state.dag
            rec.vars = sorted(list(dag.sorted_variables_by_type.get(PopulationLatentVariable, {}))
                              + list(dag.sorted_variables_by_type.get(IndividualLatentVariable, {})))
            rec.params = list(dag.sorted_variables_by_type.get(ModelParameter, {}))
            rec.param_of = {id(v): n for n, v in dag.sorted_variables_by_type.get(ModelParameter, {}).items()}
            for name, smp in algo.samplers.items():
                o = smp.sample

                def sample(state, *, temperature_inv, _o=o, _n=name, **kw):
                    rec.order.append(_n)
                    return _o(state, temperature_inv=temperature_inv, **kw)
                rec._patch(smp, "sample", sample)
        self._patch(algo, "_initialize_samplers", init_samplers)

        orig_css = model.compute_sufficient_statistics

        def css(state):
            out = orig_css(state)
            rec.s_k = dict(out)
            return out
        self._patch(model, "compute_sufficient_statistics", css)

        orig_up = model.update_parameters

        def update_parameters(state, sufficient_statistics, *, burn_in):
            rec.burn_flag = bool(burn_in)
            rec.same_stats = sufficient_statistics is algo.sufficient_statistics
            rec.steps = []
            o_cu = ModelParameter.compute_update
            o_set = State.__setitem__

            def cu(self_, *, state, suff_stats, burn_in):
                r = o_cu(self_, state=state, suff_stats=suff_stats, burn_in=burn_in)
                rec.steps.append(["c", rec.param_of.get(id(self_), "?")])
                return r

            def setitem(self_, name, value):
                if self_ is state and name in rec.params:
                    rec.steps.append(["a", name])
                return o_set(self_, name, value)
            ModelParameter.compute_update = cu
            State.__setitem__ = setitem
            # mean cluster responsibilities of the state the update rules are evaluated on (mixture model)
            expected_probs = None
            try:
                if "probs" in state.dag and "nll_regul_ind_sum_ind" in state.dag:
                    ll = state["nll_regul_ind_sum_ind"]
                    ll = -(ll.value if hasattr(ll, "value") else ll).double()
                    if ll.dim() == 2:
                        expected_probs = torch.softmax(ll.clamp(min=-100.0), dim=1).mean(dim=0)
            except Exception:  # noqa: BLE001
                expected_probs = None
            pre = mix_pre(state)
            try:
                return orig_up(state, sufficient_statistics, burn_in=burn_in)
            finally:
                ModelParameter.compute_update = o_cu
                State.__setitem__ = o_set
                rec.noise_rule, rec.probs_rule = closed_forms(state, sufficient_statistics, expected_probs)
                rec.mix_rule = mix_rule(state, sufficient_statistics, pre, bool(burn_in))
        self._patch(model, "update_parameters", update_parameters)

        orig_max = algo._maximization_step

        def maximization_step(model_, state):
            k = algo.current_iteration
            rec.events.append({"op": "Sampled", "k": k, "order": list(rec.order)})
            rec.order = []
            prev = algo.sufficient_statistics
            prev = dict(prev) if prev is not None else None
            orig_max(model_, state)
            power = float(algo.algo_parameters["burn_in_step_power"])
            memoryless, m, consistent = observe_combination(prev, rec.s_k, algo.sufficient_statistics, power)
            rec.events.append({"op": "Maximized", "k": k, "memoryless": memoryless, "m": m, "consistent": consistent,
                               "burn_flag": rec.burn_flag, "same_stats": rec.same_stats, "steps": rec.steps,
                               "noise_rule": getattr(rec, "noise_rule", "na"), "probs_rule": getattr(rec, "probs_rule", "na"),
                               "mix_rule": getattr(rec, "mix_rule", "na")})
        self._patch(algo, "_maximization_step", maximization_step)

        orig_temp = algo._update_temperature

        def update_temperature():
            orig_temp()
            t = float(algo.temperature)
            ann = rec.cfg.get("ann")
            den = (ann["t0"][1] * max(ann["p"] - 1, 1)) if ann else 1
            tnum = int(round(t * den))
            ref = tnum / den
            ulps = abs(t - ref) / (np.spacing(max(abs(ref), 1.0)))
            ok_inv = abs(float(algo.temperature_inv) - 1.0 / t) <= 1e-12
            rec.temps.append(t)
            rec.events.append({"op": "Cooled", "k": algo.current_iteration, "tnum": tnum, "tden": den,
                               "close": bool(ulps <= 8 * max(ann["p"], 1) if ann else t == 1.0) and ok_inv,
                               "is_one": t == 1.0, "ulps": float(ulps)})
        self._patch(algo, "_update_temperature", update_temperature)

        orig_iter = algo._iteration

        def iteration(model_, state):
            rec.iterations_started += 1
            orig_iter(model_, state)
            if algo.output_manager is None:
                rec.events.append({"op": "Logged", "k": algo.current_iteration, "emitted": [], "mutated": False,
                                   "rng_moved": False})
        self._patch(algo, "_iteration", iteration)

        om = algo.output_manager
        if om is not None:
            for meth, tag in (("print_algo_statistics", "print"), ("save_model_parameters_convergence", "save"),
                              ("save_plot_patient_reconstructions", "patients"),
                              ("save_plot_convergence_model_parameters", "plot")):
                o = getattr(om, meth)

                def emit(*a, _o=o, _t=tag, **kw):
                    rec.emitted.append(_t)
                    return _o(*a, **kw)
                self._patch(om, meth, emit)
            orig_om_iter = om.iteration

            def om_iteration(algo_, model_, data_):
                rec.emitted = []
                st = model_.state
                before_vals = {k: (id(v), getattr(v, "_version", None)) for k, v in st._values.items()}
                before_rng = _rng_snapshot()
                before_alg = (algo_.current_iteration, algo_.temperature, id(algo_.sufficient_statistics))
                import contextlib
                import io
                try:
                    with contextlib.redirect_stdout(io.StringIO()):
                        orig_om_iter(algo_, model_, data_)
                finally:
                    after_vals = {k: (id(v), getattr(v, "_version", None)) for k, v in st._values.items()}
                    # reads may fill the cache (None -> value): only changes of existing values count as mutation
                    mutated = any(before_vals[k][0] != after_vals[k][0] or before_vals[k][1] != after_vals[k][1]
                                  for k in before_vals if st._values[k] is not None and before_vals[k][0] != id(None))
                    mutated = mutated or before_alg != (algo_.current_iteration, algo_.temperature, id(algo_.sufficient_statistics))
                    a = _rng_snapshot()
                    rng_moved = not (a[0] == before_rng[0] and a[1] == before_rng[1] and a[2] == before_rng[2] and a[3] == before_rng[3])
                    rec.events.append({"op": "Logged", "k": algo_.current_iteration, "emitted": sorted(set(rec.emitted)),
                                       "mutated": bool(mutated), "rng_moved": bool(rng_moved)})
            self._patch(om, "iteration", om_iteration)


# ----------------------------------------------------------------------------------------------
CFG = """SPECIFICATION TraceSpec
CONSTANTS
  NIters = {{}}
  BurnSpecs = {{}}
  Powers = {{}}
  Anneals = {{}}
  LogCfgs = {{}}
  Vars = {vars}
  VarSeq <- TrVarSeq
  Params = {params}
  RandomOrders = {{}}
  GuardPeriodZero = TRUE
  GuardLowT0 = TRUE
  PrintNeedsNoPath = TRUE
CHECK_DEADLOCK FALSE
POSTCONDITION Report
"""


def validate(events, vars_, params, outdir, tag, closed_forms=False):
    os.makedirs(outdir, exist_ok=True)
    path = os.path.join(outdir, f"{tag}.ndjson")
    with open(path, "w") as f:
        for e in events:
            f.write(json.dumps(e) + "\n")
    mod = f"TRS_{tag}"
    # (no run got as far as declaring its variables - every fit raised at once: the trace is still judged, the runs' ends carry
    #  the exceptions)
    vars_, params = (vars_ or ["_none_"]), (params or ["_none_"])
    q = lambda xs: "{" + ", ".join(f'"{x}"' for x in xs) + "}"   # noqa: E731
    with open(os.path.join(outdir, mod + ".tla"), "w") as f:
        f.write(f"---- MODULE {mod} ----\nEXTENDS SaemTrace\nTrVarSeq == <<{', '.join(chr(34) + v + chr(34) for v in sorted(vars_))}>>\n====\n")
    with open(os.path.join(outdir, mod + ".cfg"), "w") as f:
        f.write(CFG.format(vars=q(vars_), params=q(params)))
    res = tlc.run(mod, mod + ".cfg", cwd=outdir, workers=1, env={"TRACE_FILE": path, "CLOSED_FORMS": "1" if closed_forms else "0"}, timeout=1800)
    m = re.search(r'<<"REJECTED-AT", (\d+), (\d+)>>', res.out)
    if m:
        return False, int(m.group(1)) - 1, res
    if res.error_text:
        raise tlc.MachineryError(f"SaemTrace validation {tag} failed to run: {res.error_text[:1500]}")
    return True, len(events), res
