"""Driver for specs/IngestLayouts.tla: builds event / joint / covariate tables as real DataFrames and ingests them."""
from __future__ import annotations

import warnings

import numpy as np
import pandas as pd
import torch

import leaspy.models  # noqa: F401
from leaspy.exceptions import LeaspyDataInputError, LeaspyInputError
from leaspy.io.data import Data
from leaspy.io.data.dataset import Dataset

ET = {"0": 0.0, "2": 2.0, "4": 4.0, "nan": float("nan"), "none": None}
COV = {"0": 0, "1": 1, "half": 0.5, "nan": float("nan"), "none": None}


def code(i, age):
    return ((10 if i == "a" else 20) + age) / 100.0


def to_frame(layout, rows):
    d = {"ID": [r["id"] for r in rows]}
    if layout != "event":
        d["TIME"] = [float(r["age"]) for r in rows]
        d["Y0"] = [code(r["id"], r["age"]) for r in rows]
    if layout != "covariate":
        d["EVENT_TIME"] = [ET[r["et"]] for r in rows]
        d["EVENT_BOOL"] = [int(r["eb"]) for r in rows]
    else:
        d["C"] = [COV[r["cov"]] for r in rows]
    df = pd.DataFrame(d)
    if not rows:
        df = df.astype({"ID": str})
    return df


def ingest(layout, df):
    kws = dict(factory_kws=dict(covariate_names=["C"])) if layout == "covariate" else {}
    return Data.from_dataframe(df, data_type=layout, **kws)


def et_kind(x):
    x = float(np.asarray(x).reshape(-1)[0])
    return "nan" if x != x else {0.0: "0", 2.0: "2", 4.0: "4"}.get(x, f"other:{x}")


def form(layout, data):
    order, visits, event, cov = [], [], [], []
    for i, ind in data.individuals.items():
        order.append(i if isinstance(i, str) else f"<{type(i).__name__}>{i}")
        if layout == "event":
            visits.append([])
        else:
            obs = np.asarray(ind.observations, dtype=float).reshape(len(ind.timepoints), -1)
            visits.append([[int(round(float(t))) if float(t) == round(float(t)) else -1, int(round(float(y[0]) * 100)) if abs(float(y[0]) * 100 - round(float(y[0]) * 100)) < 1e-6 else -1]
                           for t, y in zip(ind.timepoints, obs)])
        if layout == "covariate":
            event.append(["none", 0])
            c = np.asarray(ind.covariates).reshape(-1)
            cov.append({0: "0", 1: "1"}.get(c[0].item(), f"other:{c[0]}") if len(c) == 1 and float(c[0]) == int(c[0]) else f"other:{c.tolist()}")
        else:
            eb = np.asarray(ind.event_bool).reshape(-1).astype(bool)
            # code of the observed event: 0 censored, k = the k-th kind of event (at most one observed)
            code = 0 if not eb.any() else (int(np.argmax(eb)) + 1 if eb.sum() == 1 else -1)
            times = np.asarray(ind.event_time, dtype=float).reshape(-1)
            same_time = bool(len(times) == len(eb) and (np.all(times == times[0]) or np.all(np.isnan(times))))
            event.append([et_kind(ind.event_time) if same_time else "split", code])
            cov.append("none")
    return {"order": order, "visits": visits, "event": event, "cov": cov}


def tensors_ok(layout, data, f):
    if layout == "event":
        return True           # no tensor form without visits (Dataset needs a model with longitudinal outcomes)
    ds = Dataset(data)
    ok = [str(i) for i in ds.indices] == f["order"] and ds.n_individuals == len(f["order"])
    for k, vs in enumerate(f["visits"]):
        n = len(vs)
        ok &= int(ds.n_visits_per_individual[k]) == n
        ok &= [int(round(float(t))) for t in ds.timepoints[k, :n]] == [v[0] for v in vs]
        ok &= [int(round(float(y) * 100)) for y in ds.values[k, :n, 0]] == [v[1] for v in vs]
        ok &= bool((ds.mask[k, :n] == 1).all()) and bool((ds.mask[k, n:] == 0).all())
    if layout == "joint":
        ok &= [et_kind(x) for x in ds.event_time] == [e[0] for e in f["event"]]
        def code_of(row):
            b = np.asarray(row).reshape(-1).astype(bool)
            return 0 if not b.any() else (int(np.argmax(b)) + 1 if b.sum() == 1 else -1)
        ok &= [code_of(x) for x in ds.event_bool] == [e[1] for e in f["event"]]
    if layout == "covariate":
        ok &= [str(int(np.asarray(x).reshape(-1)[0])) for x in ds.covariates] == f["cov"]
    return bool(ok)


def run_case(layout, rows):
    rec = {"layout": layout, "table": rows, "status": "", "order": [], "visits": [], "event": [], "cov": [], "input_untouched": False,
           "tensors_ok": False, "roundtrip_same": False, "roundtrip_note": ""}
    df = to_frame(layout, rows)
    snap = df.copy(deep=True)
    with warnings.catch_warnings():
        warnings.simplefilter("ignore")
        try:
            data = ingest(layout, df)
            rec["status"] = "ok"
        except LeaspyDataInputError:
            rec["status"] = "data_error"
        except Exception as e:  # noqa: BLE001
            rec["status"] = f"other_{type(e).__name__}"
        rec["input_untouched"] = bool(df.equals(snap) and list(df.columns) == list(snap.columns) and list(df.dtypes) == list(snap.dtypes))
        if rec["status"] != "ok":
            return rec
        f = form(layout, data)
        rec.update(f)
        try:
            rec["tensors_ok"] = tensors_ok(layout, data, f)
        except Exception as e:  # noqa: BLE001
            rec["tensors_ok"] = False
            rec["roundtrip_note"] = f"tensor form: {type(e).__name__}: {str(e)[:80]}"
        try:
            back = Dataset(data).to_pandas().reset_index() if layout != "event" else data.to_dataframe()
            f2 = form(layout, ingest(layout, back))
            same = {o: (f2["visits"][k], f2["event"][k], f2["cov"][k]) for k, o in enumerate(f2["order"])} == \
                   {o: (f["visits"][k], f["event"][k], f["cov"][k]) for k, o in enumerate(f["order"])}
            rec["roundtrip_same"] = bool(same)
            rec["roundtrip_order_kept"] = f2["order"] == f["order"]
            if not same:
                rec["roundtrip_note"] = f"re-ingested form differs: {f2}"
        except Exception as e:  # noqa: BLE001
            rec["roundtrip_note"] = f"{type(e).__name__}: {str(e)[:120]}"
    return rec
