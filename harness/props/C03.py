"""C03 - every sampler step is a Metropolis-Hastings transition for the documented target (Sampler.tla)."""
from .. import zoo
from ..drivers import sampler as smp


def run(ctx):
    q = ctx.quick
    ctx.rule = ("TLC explores the sampler protocol of Sampler.tla for population kinds (1-3 blocks, any block order) and "
                "the individual kind (2 individuals), every proposal noise, alpha level (incl. alpha >= 1) and uniform "
                "level, 2-6 calls (OneDrawPerDecision, OneProposalPerDraw, OnlyBlockTouched, AcceptIffBelow, DecisionLocal, "
                "RejectedIsSnapshot, Std*). Real sample() calls of every sampler kind in fits (with / without annealing), "
                "MCMC personalizations and non-finite scenarios are recorded with torch.randn / torch.rand outputs, "
                "state snapshots and from-scratch evaluations of D = d_attach + beta * d_regul at the old and proposed "
                "values; SamplerTrace.tla decides block order, one normal draw and one uniform per decision, "
                "proposal = std*z on the block only, accepted <=> u < exp(-D), per-individual locality, exact revert, "
                "window / counter / scale adaptation. Distinct = (model kind, sampler kind, annealing, seed).")
    ctx.assumptions = ["decisions with |u - alpha| <= 1e-5 alpha are ties (either outcome accepted); counted",
                       "for the mixture model the target is the as-built responsibility-weighted regularity",
                       "quality of torch generators assumed; zero-mean Gaussian reduced to delta = std * (recorded randn output)"]
    smp.run_design(ctx)
    if q:
        smp.run_traces(ctx, smp.PLAN_QUICK, n_iter=5, seeds=[ctx.seed + 2])
    else:
        plan = []
        for i, kind in enumerate(zoo.CONFIGS):
            for j, sp in enumerate(zoo.SAMPLER_KINDS):
                plan.append((kind, sp, (i + j) % 2 == 0, ["mode_posterior", "mean_posterior", None][(i + j) % 3] if kind != "mixture_2" else None,
                             kind in ("logistic_diag_src1", "linear_scalar_src1", "shared_speed_src1") and sp == "Gibbs"))
        smp.run_traces(ctx, plan, n_iter=12, seeds=[ctx.seed + 2, ctx.seed + 3])
    ctx.exhaustive = False


def replay(ctx, path):
    import json
    print(json.dumps(json.load(open(path)), indent=1))
    run(ctx)
