"""C01 - values read from the lazily cached variable graph are never stale (StateCache.tla)."""
from ..drivers import statecache as sc
from .. import zoo


def run(ctx):
    ctx.rule = ("TLC explores every history of State operations up to MaxOps on the toy graph family G1-G5 "
                "(invariants Fresh, ReadTotal, CloneIsolation); TLC-simulated behaviours are replayed into real "
                "leaspy State objects with the projected state compared after every step; State events of real "
                "fits / random API histories / personalizations on shipped model kinds are validated by TLC "
                "against StateCacheTrace.tla, with a from-scratch freshness probe. A case is distinct when its "
                "sequence of (operation, arguments, abstract state) differs.")
    ctx.assumptions = ["numeric image of terms is injective enough on the bounded toy graphs (float64 exact)",
                       "torch recomputation of a variable on equal inputs is bit-identical"]
    q = ctx.quick
    deep = {"G1": 8, "G2": 6, "G3": 6, "G4": 6, "G5": 8} if q else {"G1": 10, "G2": 8, "G3": 8, "G4": 7, "G5": 10}
    two = {"G1": 4, "G2": 4, "G3": 4, "G4": 4, "G5": 4} if q else {"G1": 6, "G2": 5, "G3": 5, "G4": 5, "G5": 6}
    plan = []
    for g in sc.GRAPHS:
        plan.append((g, "deep1", dict(objs=(1,), modes=("none", "ref"), max_ops=deep[g], nonfin=()), False))
        plan.append((g, "clone2", dict(objs=(1, 2), max_ops=two[g], nonfin=()), True))
    sc.run_toy(ctx, "C01", plan, sim_traces=300 if q else 4000, sim_depth=14 if q else 20)
    jobs = [(c, ctx.seed + 1) for c in (zoo.QUICK if q else list(zoo.CONFIGS))]
    if not q:
        jobs += [(c, ctx.seed + 2) for c in zoo.CONFIGS]
    sc.run_real(ctx, "C01", jobs, n_ops=60 if q else 250)
    ctx.exhaustive = False


def replay(ctx, path):
    import json
    print(json.dumps(json.load(open(path)), indent=1))
    run(ctx)
