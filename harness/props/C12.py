"""C12 - a fitted model is self-consistent and survives save/load unchanged (SaveLoad.tla, ModelLifecycle.tla)."""
import os
import random

from .. import cases, tlc
from ..drivers import saveload as sl

CFG_T = """SPECIFICATION TSpec
CONSTANTS
  ModelKinds = {}
  Dims = {}
  DimGiven = {}
  Srcs = {}
  Noises = {}
  Feats = {}
  INames = {}
  Origins = {}
  NameIsKindOK = FALSE
  UniSourcesOK = FALSE
  ScalarShapeOK = FALSE
INVARIANT Conforms
"""


def run(ctx):
    q = ctx.quick
    ctx.rule = ("TLC enumerates every valid configuration of SaveLoad.tla (4 model kinds x dimension 1-3 given or not x source "
                "dimension unspecified / 0 / 1 / 2 x noise default / scalar / diagonal x named, default, integer-labelled or header-like odd (surrounding / inner blanks, slash, dot, tab, non-ASCII) feature names x instance "
                "name = kind or custom x origin fit (1-3 averaging iterations), hand-written file, fitted object edited through load_parameters, "
                "fitted object calibrated again - the last two after the object answered trajectory requests and was saved to / loaded from "
                "the very same path: 4656 configurations) and checks SurvivesSaveLoad on the "
                "intended design and SurvivesExceptNamed on the as-built one (three named deviations); configurations are "
                "executed on the real code (tiny fit, save, load, optional hand-edited file, re-save): population variables at "
                "prior modes after the fit, derived values consistent with the saved parameters, load outcome, parameters / "
                "hyper-parameters / trajectories at 5 ages equal to single precision, re-saved file equal in structure and to "
                "single precision in numbers; TLC compares every record with Expected (SaveLoadTrace.tla). "
                "Distinct = distinct configuration.")
    ctx.assumptions = ["'reproduces the file' is judged on the JSON content: same structure, numbers to single precision, version field ignored"]
    tmp = os.path.join(ctx.tmp, "sl")
    os.makedirs(tmp, exist_ok=True)
    res = tlc.run("SaveLoad", "MC_SaveLoad_intended.cfg", workers=8)
    tlc.require_ok(res, "SaveLoad intended")
    ctx.add_tlc("SaveLoad intended design: SurvivesSaveLoad", res)
    res, cs = cases.enumerate_cases("SaveLoad", "MC_SaveLoad.cfg", tmp, "sl")
    ctx.add_tlc("SaveLoad as built: SurvivesExceptNamed + enumeration", res)
    if res.violated:
        ctx.violation({"check": "design", "invariant": res.violated[0]}, f"SaveLoad.tla violates {res.violated}", replay=res.trace_text[:3000])
    rnd = random.Random(ctx.seed)
    rnd.shuffle(cs)
    if q:
        # covering sample: every kind, every deviation, both origins
        pick, seen = [], set()
        for c in cs:
            key = (c["kind"], c["iname"], c["origin"], c["noise"], c["dim"] == 1 and not c["dimgiven"], c["feats"] if c["origin"] in ("fit", "hand") else "-")
            if key not in seen:
                seen.add(key)
                pick.append(c)
        cs = pick[:150]
    recs = [sl.run_case(c, rnd, tmp) for c in cs]
    for r in recs:
        ctx.case(key=tuple(r[k] for k in ("kind", "dim", "dimgiven", "src", "noise", "feats", "iname", "origin")))
    ok, idx, r2 = cases.validate_records("SaveLoadTrace", CFG_T, [{k: v for k, v in r.items() if k != "load_error"} for r in recs], tmp, "conf")
    ctx.traces += len(recs)
    ctx.states += r2.distinct
    ctx.transitions += r2.generated
    ctx.log(f"{len(recs)} configurations fitted / saved / loaded / re-saved -> {'all conform' if ok else 'MISMATCH'} ({r2.wall:.1f}s)")
    ctx.sample(recs[0])
    if not ok:
        bad = recs[idx] if idx is not None else None
        ctx.violation({"check": "conformance", "kind": bad and bad["kind"], "status": bad and bad["status"][:30]},
                      f"save / load behaviour differs from SaveLoad.tla on {bad}", replay=bad)
    dev = {"name": [r for r in recs if r["status"] == "ok" and not r["load_ok"] and r["iname"] == "custom"],
           "uni": [r for r in recs if r["status"] == "ok" and not r["load_ok"] and r["iname"] == "kind" and r["dim"] == 1],
           "scalar": [r for r in recs if r["status"] == "ok" and r["load_ok"] and not r["resave_same"]]}
    if dev["name"]:
        ctx.violation({"check": "survives", "deviation": "instance_name"}, f"a model with a custom instance name cannot be loaded back: {dev['name'][0]['load_error']}", replay=dev["name"][0])
    if dev["uni"]:
        ctx.violation({"check": "survives", "deviation": "univariate_sources"}, f"a univariate model built without explicit dimension cannot be loaded back: {dev['uni'][0]['load_error']}", replay=dev["uni"][0])
    if dev["scalar"]:
        ctx.violation({"check": "survives", "deviation": "scalar_noise_shape"}, "the re-saved file of a freshly fitted scalar-noise model differs in the nesting of noise_std", replay=dev["scalar"][0])
    import copy
    good = next({k: v for k, v in r.items() if k != "load_error"} for r in recs if r["status"] == "ok" and r["load_ok"])
    bad = copy.deepcopy(good)
    bad["same_traj"] = False
    ok, idx, _ = cases.validate_records("SaveLoadTrace", CFG_T, [good, bad], tmp, "selftest")
    if ok or idx != 1:
        raise tlc.MachineryError("binding self-test failed")
    ctx.exhaustive = not q


def replay(ctx, path):
    import json
    print(json.dumps(json.load(open(path)), indent=1))
    run(ctx)
