"""C19 - temperature and proposal-scale schedules stay within their envelopes (Saem.tla, Sampler.tla)."""
import os
import random

from .. import tlc, zoo
from ..drivers import saem

T0S = [(1, 2), (1, 1), (3, 2), (5, 1), (10, 1)]


def configs(rnd, count, n_max=12):
    out, seen = [], set()
    while len(out) < count:
        n = rnd.randint(1, n_max)
        if rnd.random() < 0.7:
            spec = ("count", rnd.randint(0, n))
        else:
            f = rnd.choice([0, 3, 5, 10])
            if saem.frac_ambiguous(f, n):
                continue
            spec = ("frac", f)
        p = rnd.randint(1, 6)
        t0 = rnd.choice(T0S)
        key = (n, spec, p, t0)
        if key in seen:
            continue
        seen.add(key)
        out.append(dict(n=n, burn=("frac", 5), pw=(4, 5), rnd=True, ann=dict(spec=spec, p=p, t0=t0)))
    return out


def apalache_unbounded(ctx):
    """AnnealInd.tla: the plateau counter for ARBITRARY parameters; Apalache discharges the inductive invariant (initial states,
    inductive step) and its consequences (temperature exactly one after the annealing phase, never below one, never rising).  A
    deliberately false invariant must be refuted (the proof obligations are not vacuous).  If Apalache cannot be run in time the
    bounded TLC result above stands alone (logged, not a failure)."""
    import shutil
    import subprocess
    import tempfile
    exe = shutil.which("apalache-mc")
    if not exe:
        ctx.log("apalache-mc not found: unbounded check of the annealing counter skipped")
        return
    spec = os.path.join(tlc.SPECS, "AnnealInd.tla")
    out = tempfile.mkdtemp(prefix="verif_apa_")
    obligations = [("initial states satisfy IndInv", ["--init=Init", "--inv=IndInv", "--length=0"], "NoError"),
                   ("IndInv is inductive", ["--init=IndInit", "--inv=IndInv", "--length=1"], "NoError"),
                   ("IndInv implies Safe", ["--init=IndInit", "--inv=Safe", "--length=0"], "NoError"),
                   ("a false invariant is refuted", ["--init=IndInit", "--inv=Bogus", "--length=0"], "Error")]
    results = {}
    try:
        for name, args, want in obligations:
            try:
                p = subprocess.run([exe, "check", *args, f"--out-dir={out}", spec], capture_output=True, text=True, timeout=600, cwd=out)
            except subprocess.TimeoutExpired:
                ctx.log(f"Apalache timed out on '{name}': unbounded check incomplete (the bounded TLC result stands)")
                results[name] = "timeout"
                continue
            outcome = "NoError" if "The outcome is: NoError" in p.stdout else ("Error" if "The outcome is: Error" in p.stdout else "unknown")
            results[name] = outcome
            if outcome == "unknown":
                ctx.log(f"Apalache gave no verdict on '{name}' (exit {p.returncode}): {p.stdout[-300:]!r}")
            elif outcome != want:
                if want == "NoError":
                    ctx.violation({"check": "design_unbounded", "obligation": name}, f"AnnealInd.tla: {name} FAILS (Apalache: {outcome})",
                                  replay=p.stdout[-3000:])
                else:
                    raise tlc.MachineryError("Apalache accepted a deliberately false invariant of AnnealInd.tla")
    finally:
        shutil.rmtree(out, ignore_errors=True)
    ctx.extra["apalache_annealind"] = results
    ctx.log(f"Apalache, AnnealInd.tla (arbitrary n_iter / annealing length / plateaus / T0 > 1): {results}")


CFG_AT = """SPECIFICATION TSpec
INVARIANT Conforms
"""


def personalization_annealing(ctx):
    """The annealing scheme as used by the sampling-based personalization algorithms: the temperature handed to the samplers at
    every iteration against AnnealTrace.tla."""
    import warnings
    import torch
    from leaspy.algo import AlgorithmSettings, algorithm_factory
    from leaspy.io.data.dataset import Dataset
    from .. import cases
    model, data, _ = zoo.make("logistic_diag_src1", n_ind=5, seed=1)
    with warnings.catch_warnings():
        warnings.simplefilter("ignore")
        model.fit(data, "mcmc_saem", n_iter=10, seed=ctx.seed, progress_bar=False)
    ds = Dataset(data)
    recs = []
    plans = [("mode_posterior", 12, 6, 5, 3, (4, 1)), ("mean_posterior", 10, 5, 8, 5, (4, 1)), ("mode_posterior", 9, 0, 9, 4, (5, 2)),
             ("mean_posterior", 8, 4, 3, 2, (10, 1)), ("mode_posterior", 11, 9, 6, 3, (3, 2))]
    if not ctx.quick:
        rnd = random.Random(ctx.seed + 9)
        for _ in range(40):
            n = rnd.randint(4, 14)
            p = rnd.randint(2, 5)
            plans.append((rnd.choice(["mode_posterior", "mean_posterior"]), n, rnd.randint(0, n - 1), rnd.randint(p - 1, n), p, rnd.choice([(4, 1), (5, 2), (3, 2), (10, 1)])))
    for name, n, nb, nann, p, (tnum, tden) in plans:
        rec = {"algo": name, "n": n, "nb": nb, "nann": nann, "p": p, "tnum": tnum, "tden": tden, "status": "ok", "used": [], "final": {"num": 0, "den": 0, "close": False}}
        den = tden * (p - 1)

        def rat(t):
            v = float(t) * den
            return {"num": int(round(v)), "den": den, "close": bool(abs(v - round(v)) <= 1e-4 * max(1.0, abs(v)))}
        try:
            with warnings.catch_warnings():
                warnings.simplefilter("ignore")
                settings = AlgorithmSettings(name, n_iter=n, n_burn_in_iter=nb, n_burn_in_iter_frac=None, seed=ctx.seed, progress_bar=False,
                                             annealing=dict(do_annealing=True, initial_temperature=tnum / tden, n_plateau=p, n_iter=nann, n_iter_frac=None))
                algo = algorithm_factory(settings)
                used = []
                o_init = algo._initialize_samplers

                def init_samplers(state, dataset, _o=o_init, _algo=algo, _used=used):
                    _o(state, dataset)
                    first = sorted(_algo.samplers)[0]
                    smp = _algo.samplers[first]
                    o_sample = smp.sample

                    def sample(state_, *, temperature_inv, _os=o_sample):
                        _used.append(1.0 / float(temperature_inv))
                        return _os(state_, temperature_inv=temperature_inv)
                    smp.sample = sample
                algo._initialize_samplers = init_samplers
                algo.run(model, ds)
                rec["used"] = [rat(t) for t in used]
                rec["final"] = rat(algo.temperature)
        except Exception as e:  # noqa: BLE001
            rec["status"] = f"{type(e).__name__}: {str(e)[:120]}"
        recs.append(rec)
        ctx.case(key=("perso_anneal", name, n, nb, nann, p, tnum, tden))
    ok, idx, r2 = cases.validate_records("AnnealTrace", CFG_AT, recs, os.path.join(ctx.tmp, "at"), "perso")
    ctx.traces += len(recs)
    ctx.states += r2.distinct
    ctx.transitions += r2.generated
    ctx.log(f"{len(recs)} annealed personalizations: temperature handed to the samplers at every iteration -> {'all conform' if ok else 'MISMATCH'}")
    if not ok:
        bad = recs[idx] if idx is not None else None
        ctx.violation({"check": "perso_annealing", "algo": bad and bad["algo"]},
                      f"annealed personalization differs from AnnealTrace.tla: {bad and {k: v for k, v in bad.items() if k != 'used'}}; temperatures used "
                      f"{bad and [round(u['num'] / max(u['den'], 1), 3) for u in bad['used']]}", replay=bad)


def scales_refused(ctx):
    """Proposal scales are positive from the start: a sampler is not created on a scale with a zero or negative entry."""
    import torch
    from leaspy.exceptions import LeaspyInputError
    from leaspy.samplers import sampler_factory
    from leaspy.variables.specs import IndividualLatentVariable, PopulationLatentVariable
    bad = []
    for sname in ("Gibbs", "FastGibbs", "Metropolis-Hastings"):
        for label, scale, want in (("zero entry", torch.tensor([0.3, 0.0]), "refused"), ("negative entry", torch.tensor([0.3, -0.1]), "refused"),
                                   ("zero", 0.0, "refused"), ("positive", torch.tensor([0.3, 0.2]), "ok")):
            try:
                sampler_factory(sname, PopulationLatentVariable, name="v", shape=(2,), scale=scale)
                got = "ok"
            except LeaspyInputError:
                got = "refused"
            except Exception as e:  # noqa: BLE001
                got = type(e).__name__
            ctx.case(key=("scale", sname, label))
            if got != want:
                bad.append((sname, label, got))
    for label, scale, want in (("zero", 0.0, "refused"), ("negative", -1.0, "refused"), ("positive", 0.7, "ok")):
        try:
            sampler_factory("Gibbs", IndividualLatentVariable, name="x", shape=(1,), n_patients=3, scale=scale)
            got = "ok"
        except LeaspyInputError:
            got = "refused"
        except Exception as e:  # noqa: BLE001
            got = type(e).__name__
        ctx.case(key=("scale", "individual", label))
        if got != want:
            bad.append(("individual Gibbs", label, got))
    ctx.log(f"sampler creation on degenerate proposal scales: {'refused as required' if not bad else bad}")
    for b in bad[:3]:
        ctx.violation({"check": "initial_scale", "sampler": b[0], "scale": b[1]}, f"sampler {b[0]} created on a {b[1]} proposal scale: {b[2]} (StdEnvelope: scales are positive)", replay=list(b))


def run(ctx):
    q = ctx.quick
    ctx.rule = ("TLC explores every annealing configuration (n_iter <= 12, annealing iterations as count 0..12 or fraction, "
                "1..6 plateaus, initial temperature in {1/2,1,3/2,5,10}) and every iteration of Saem.tla with the "
                "temperature as an exact rational (TempStart, TempFloor, TempMonotone, TempOnlyAtBoundaries, "
                "TempOneAfterAnnealing, NoAnnealingIsOne, DecrementsClosedForm, AcceptedCompletes, Termination); for arbitrary parameters "
                "Apalache discharges the inductive invariant of AnnealInd.tla (decrements = floor(min(k, nAnn) / period)) and its "
                "consequences (temperature exactly one after the annealing phase, never below one, never rising); sampled configurations are run "
                "as real fits (a quarter of them as two consecutive runs of one algorithm object), the temperature after every iteration is validated by TLC against SaemTrace.tla "
                "(equal to the rational within 8*P ulps, literally 1.0 when the specification says 1); proposal scales: "
                "Sampler.tla StdEnvelope + recorded sampler adaptation (see C03 driver). "
                "Distinct = distinct (kind, n_iter, annealing spec, plateaus, T0).")
    ctx.assumptions = ["a single plateau is the documented degenerate scheme (stays at the initial temperature, with a warning)"]
    res = tlc.run("MC_Saem", "MC_Saem_anneal.cfg", workers=16, timeout=3000)
    tlc.require_ok(res, "MC_Saem_anneal")
    ctx.add_tlc("Saem annealing: n_iter 1..12 x 17 specs x 6 plateaus x 5 T0", res)
    ctx.log(f"TLC MC_Saem_anneal: {res.distinct} states, violated={res.violated} ({res.wall:.1f}s)")
    if res.violated:
        ctx.violation({"check": "design", "invariant": res.violated[0]}, f"Saem.tla violates {res.violated}", replay=res.trace_text[:4000])
    apalache_unbounded(ctx)
    personalization_annealing(ctx)
    scales_refused(ctx)
    rnd = random.Random(ctx.seed)
    kinds = ["logistic_scalar_src1", "linear_diag_src1"] if q else ["logistic_scalar_src1", "linear_diag_src1", "joint_nosrc", "shared_speed_src1"]
    per_kind = 30 if q else 250
    first = None
    n_refused = n_run = 0
    for kind in kinds:
        cfgs = configs(rnd, per_kind)
        events, vars_, params = [], None, None
        for i, c in enumerate(cfgs):
            w = os.path.join(ctx.tmp, f"w_{kind}_{i}")
            os.makedirs(w, exist_ok=True)
            # every fourth configuration: the same algorithm object calibrates two fresh models in a row (two runs for the
            # specification: each must start at the initial temperature)
            evs, info = saem.run_config(kind, c, seed=ctx.seed + i, workdir=w, reuse_algo=(i % 4 == 1))
            events += evs
            if info.get("vars"):
                vars_, params = info["vars"], info["params_names"]
            a = c["ann"]
            ctx.case(key=(kind, c["n"], a["spec"], a["p"], a["t0"]))
            n_refused += evs[0]["outcome"] == "refused"
            n_run += evs[0]["outcome"] == "run"
        ok, k, res = saem.validate(events, vars_, params, os.path.join(ctx.tmp, "tr"), f"C19_{kind}")
        ctx.traces += len(cfgs)
        ctx.states += res.distinct
        ctx.transitions += res.generated
        ctx.log(f"{kind}: {len(cfgs)} annealing configurations, {len(events)} events -> {'accepted' if ok else f'REJECTED at event {k}'} ({res.wall:.1f}s)")
        if ok and first is None:
            first = (kind, events, vars_, params)
        if not ok:
            e = events[k]
            start = max(i for i in range(k + 1) if events[i]["op"] == "RunStart")
            r = events[start]
            ctx.violation({"check": "trace", "event_op": e["op"], "ann_p": r["ann_p"], "outcome": e.get("outcome", "-")},
                          f"annealed fit of {kind} is not a behaviour of Saem.tla: event {e} of run {r}",
                          replay={"run": r, "event": e})
    ctx.extra["configs_refused"] = n_refused
    ctx.extra["configs_run"] = n_run
    if first:
        import copy
        kind, events, vars_, params = first
        ctx.sample({"run": events[0], "temps": [(e["k"], e["tnum"], e["tden"]) for e in events[:40] if e["op"] == "Cooled"]})
        idx = next((i for i, e in enumerate(events) if e["op"] == "Cooled" and e["tnum"] > e["tden"]), None)
        if idx is None:
            raise tlc.MachineryError("self-test: no iteration above temperature 1 recorded")
        bad = copy.deepcopy(events)
        bad[idx]["tnum"] += 1
        ok, k, res = saem.validate(bad, vars_, params, os.path.join(ctx.tmp, "tr"), "C19_selftest")
        if ok or k != idx:
            raise tlc.MachineryError(f"binding self-test failed: corrupted temperature accepted={ok} at {k} (expected {idx})")
        ctx.log(f"self-test: corrupted temperature at event {idx} -> rejected (as required)")
    # proposal scales
    try:
        from ..drivers import sampler as smp
    except ImportError:
        smp = None
    if smp is not None:
        smp.run_std_envelope(ctx)
    ctx.exhaustive = False


def replay(ctx, path):
    import json
    print(json.dumps(json.load(open(path)), indent=1))
    run(ctx)
