"""C06 - missing and padded observations never influence any result (Masking.tla)."""
import os
import random

from .. import cases, tlc
from ..drivers import masking as mk

CFG_T = """SPECIFICATION TSpec
CONSTANTS
  NE = 3
  Fin = {0, 1, 3}
  Sent = {}
INVARIANT VectorConforms
INVARIANT ScenarioConforms
"""


CFG_ALG = """SPECIFICATION TSpec
CONSTANTS
  Fin <- MCFin
  Sent = {1000000, 1000001}
  Ops = {}
  Kinds = {}
INVARIANT WeightsKept
INVARIANT Covered
"""


def algebra(ctx, tmp):
    """WTAlgebra.tla: every operator x operand kind x masking on real WeightedTensor objects.  Verdict: maskings are carried by
    every operation (weights kept, two different maskings refused, aggregates of the result see observed entries only, operands
    untouched).  The values at observed entries (plain arithmetic, not a missing-data matter) are a conformance note."""
    res, cs = cases.enumerate_cases("MC_WTAlgebra", "MC_WTAlgebra.cfg", tmp, "alg")
    ctx.add_tlc("WTAlgebra: 17 operators x 7 operand kinds (broadcasting ones included) x maskings (design)", res)
    if res.violated:
        ctx.violation({"check": "design", "invariant": res.violated[0]}, f"WTAlgebra.tla violates {res.violated}", replay=res.trace_text[:3000])
    recs = [mk.run_algebra_case(c) for c in cs]
    ok, idx, r2 = cases.validate_records("WTAlgebraTrace", CFG_ALG, recs, tmp, "alg_conf", env={"EXPECT_COUNT": str(len(cs))})
    ctx.traces += len(recs)
    ctx.states += r2.distinct
    ctx.transitions += r2.generated
    for r in recs:
        ctx.case(key=("alg", r["key"]))
    ctx.log(f"WTAlgebra: {len(recs)} operator cases on real WeightedTensor objects -> {'maskings carried everywhere' if ok else 'MISMATCH'} ({r2.wall:.1f}s)")
    if not ok:
        bad = recs[idx] if idx is not None else None
        ctx.violation({"check": "algebra", "op": bad and bad["op"], "kind": bad and bad["kind"]},
                      f"WeightedTensor operator does not carry the masking as WTAlgebra.tla requires on {bad}", replay=bad)
    okv, idxv, _ = cases.validate_records("WTAlgebraTrace", CFG_ALG.replace("INVARIANT WeightsKept", "INVARIANT ValuesRight").replace("INVARIANT Covered\n", ""),
                                          recs, tmp, "alg_values", env={"EXPECT_COUNT": "0"})
    note = None if okv else f"values at observed entries differ from WTAlgebra.tla on {recs[idxv] if idxv is not None else '?'}"
    ctx.extra["algebra_value_notes"] = {"cases": len(recs), "conform": bool(okv), "example": note}
    ctx.log(f"notes (not part of the verdict): operator values at observed entries -> {'all conform' if okv else note[:300]}")


def run(ctx):
    q = ctx.quick
    ctx.rule = ("TLC checks NonInterference, CountsObserved and NeverNonFinite of the extended-real algebra of masked tensors "
                "(Masking.tla: filled / weighted_value / wsum / weighted products / Gaussian attachment pipeline) for every mask, "
                "every pair of twins agreeing on the observed entries and every sentinel (NaN, inf, huge) at masked entries; every "
                "vector (3 entries, all masks, sentinels at masked entries, bool / int / float weights) is run through the real "
                "WeightedTensor operations and compared by TLC with the algebra (MaskingTrace.tla); WTAlgebra.tla: 17 operators (reflected "
                "ones, comparisons, negation, absolute value, square) x 7 operand kinds (broadcasting ones included) x every masking on real WeightedTensor objects - the "
                "masking is carried by every operation, two different maskings are refused, aggregates of the result see observed entries "
                "only (WTAlgebraTrace.tla); twin-dataset scenarios on real "
                "models (masked values and padded times overwritten by 7.5 / 1e30 / NaN / inf, 0-2 extra padded visits, 25 % missing "
                "entries incl. partially observed visits) must give equal attachment terms, sufficient statistics, counts, "
                "initial and fitted parameters (memory phase included), trajectories at real visits, personalizations, an attachment "
                "equal to the sum of the entry-wise Gaussian / Bernoulli terms over observed entries, and a noise level equal to the RMSE "
                "over observed entries - the latter also at every iteration, in and after the memory-less phase, of recorded fits with "
                "entries missing inside visits. Distinct = distinct vector / scenario.")
    ctx.assumptions = ["bit-identical when padding is unchanged; relative 1e-5 (personalization 1e-2 absolute) when the amount of padding differs"]
    tmp = os.path.join(ctx.tmp, "mk")
    os.makedirs(tmp, exist_ok=True)
    cfg = os.path.join(tmp, "design.cfg")
    with open(cfg, "w") as f:
        f.write("SPECIFICATION Spec\nCONSTANTS\n  NE = 2\n  Fin = %s\n  Sent <- AllSent\nINVARIANT NonInterference\nINVARIANT CountsObserved\nINVARIANT NeverNonFinite\n"
                % ("{0, 1}" if q else "{0, 1, 3}"))
    res = tlc.run("MC_Masking", cfg, workers=16, timeout=3000)
    tlc.require_ok(res, "MC_Masking")
    ctx.add_tlc("Masking algebra: all twins / masks / sentinels, 2 entries", res)
    ctx.log(f"TLC MC_Masking: {res.distinct} states, violated={res.violated} ({res.wall:.1f}s)")
    if res.violated:
        ctx.violation({"check": "design", "invariant": res.violated[0]}, f"Masking.tla violates {res.violated}", replay=res.trace_text[:3000])
    recs = [mk.run_vector(*c) for c in mk.vector_cases()]
    ok, idx, r2 = cases.validate_records("MaskingTrace", CFG_T, recs, tmp, "vectors")
    ctx.traces += len(recs)
    ctx.states += r2.distinct
    ctx.transitions += r2.generated
    for r in recs:
        ctx.case(key=(tuple(r["v"]), tuple(r["w"]), tuple(r["c"]), r["weight_dtype"]))
    ctx.log(f"{len(recs)} vectors through real WeightedTensor operations -> {'all conform' if ok else 'MISMATCH'} ({r2.wall:.1f}s)")
    ctx.sample(recs[77])
    if not ok:
        bad = recs[idx] if idx is not None else None
        ctx.violation({"check": "vector", "weight_dtype": bad and bad["weight_dtype"]}, f"WeightedTensor operation differs from Masking.tla on {bad}", replay=bad)
    algebra(ctx, tmp)
    # twin scenarios
    rnd = random.Random(ctx.seed)
    kinds = ["logistic_diag_src1", "logistic_scalar_src1", "joint_src1", "logistic_binary"] if q else \
        ["logistic_diag_src1", "logistic_scalar_src1", "joint_src1", "linear_diag_src1", "linear_scalar_src1", "shared_speed_src1",
         "logistic_binary", "logistic_univariate", "joint_nosrc"]
    fills = [(7.5, -3.0), (1e30, 1e30), (float("nan"), float("nan")), (float("inf"), float("inf")), (-2.0, 55.5)]
    scen = []
    cache = {}
    for kind in kinds:
        seeds = [ctx.seed + 1] if q else [ctx.seed + 1, ctx.seed + 2]
        for seed in seeds:
            combos = [(f, p) for f in fills for p in (0, 1, 2)]
            rnd.shuffle(combos)
            for (fill, tfill), pad in combos[: ((2 if kind == "logistic_binary" else 4) if q else 12)]:
                scen.append(mk.run_scenario(kind, seed, fill, tfill, pad, cache))
                ctx.case(key=(kind, seed, repr(fill), pad))
    ok, idx, r3 = cases.validate_records("MaskingTrace", CFG_T, scen, tmp, "scenarios")
    ctx.traces += len(scen)
    ctx.log(f"{len(scen)} twin-dataset scenarios on {len(kinds)} model kinds -> {'all conform' if ok else 'MISMATCH'} ({r3.wall:.1f}s)")
    ctx.sample({k: v for k, v in scen[0].items() if k not in ("v", "w", "c")})
    if not ok:
        for r in scen:
            bad_flags = [k for k, v in r.items() if k.endswith(("_equal", "_rmse", "_finite", "_sum")) and v is False]
            if r["status"] != "ok" or bad_flags:
                ctx.violation({"check": "scenario", "kind": r["kind"], "failed": (bad_flags or [r["status"][:30]])[0]},
                              f"masked / padded entries influence results of {r['kind']} (fill {r['fill']}, extra padding {r['extra_pad']}): "
                              f"{bad_flags or r['status']}", replay={k: v for k, v in r.items() if k not in ("v", "w", "c")})
    # the noise level over observed entries only, at every iteration of real fits with entries missing inside visits, in and
    # after the memory-less phase (the recorder of C04 / C05: closed form on the statistics in force and the DATA mask)
    from ..drivers import saem
    for kind in (["logistic_diag_src1", "logistic_scalar_src1"] if q else ["logistic_diag_src1", "logistic_scalar_src1", "linear_diag_src1", "joint_src1"]):
        events, vars_, params = [], None, None
        for i, c in enumerate([dict(n=6, burn=("count", 2), pw=(4, 5), rnd=True, missing=0.3), dict(n=5, burn=("count", 0), pw=(1, 1), rnd=False, missing=0.4)]):
            w = os.path.join(ctx.tmp, f"w6_{kind}_{i}")
            os.makedirs(w, exist_ok=True)
            evs, info = saem.run_config(kind, c, seed=ctx.seed + i, workdir=w)
            events += evs
            if info.get("vars"):
                vars_, params = info["vars"], info["params_names"]
            ctx.case(key=("fit_noise", kind, i))
        okf, k, _ = saem.validate(events, vars_, params, os.path.join(ctx.tmp, "tr6"), f"C06_{kind}", closed_forms=True)
        ctx.traces += 2
        ctx.log(f"{kind}: noise level over observed entries at every iteration of 2 fits with missing entries -> {'conforms' if okf else f'REJECTED at event {k}'}")
        if not okf:
            e = events[k]
            ctx.violation({"check": "fit_noise", "kind": kind, "event_op": e["op"]},
                          f"fit of {kind} with missing entries: {e.get('noise_rule', e)}", replay={"event": e})
    # binding self-test
    import copy
    bad = copy.deepcopy(recs[77])
    bad["wsum"] = bad["wsum"] + 1 if bad["wsum"] < 1000 else 0
    ok, idx, _ = cases.validate_records("MaskingTrace", CFG_T, [recs[77], bad], tmp, "selftest")
    if ok or idx != 1:
        raise tlc.MachineryError("binding self-test failed: corrupted weighted sum accepted")
    ctx.log("self-test: corrupted weighted sum rejected (as required)")
    ctx.exhaustive = False


def replay(ctx, path):
    import json
    print(json.dumps(json.load(open(path)), indent=1))
    run(ctx)
