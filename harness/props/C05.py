"""C05 - sufficient statistics follow the stochastic-approximation schedule (Saem.tla)."""
import os
import random

from .. import tlc, zoo
from ..drivers import saem

POWERS = [(51, 100), (13, 20), (4, 5), (1, 1), (1, 2), (11, 10), (0, 0)]      # (0, 0): not a number


def configs(rnd, count, n_max=12):
    out, seen = [], set()
    while len(out) < count:
        n = rnd.randint(1, n_max)
        r = rnd.random()
        if r < 0.45:
            burn = ("count", rnd.randint(0, n + 1))
        elif r < 0.6:
            burn = ("frac8", rnd.choice([1, 3, 5, 7]))      # not a whole percent; exact for n_iter = 8
            n = rnd.choice([8, 8, n])
        else:
            f = rnd.randint(0, 10)
            if saem.frac_ambiguous(f, n):
                continue
            burn = ("frac", f)
        pw = rnd.choice(POWERS)
        key = (n, burn, pw)
        if key in seen:
            continue
        seen.add(key)
        c = dict(n=n, burn=burn, pw=pw, rnd=bool(rnd.random() < 0.7))
        r2 = rnd.random()
        if r2 < 0.12:
            c["post_load"] = rnd.randint(0, n)        # an explicit count loaded into the algorithm after its construction
        elif r2 < 0.24 and burn[0] != "count":
            pn = rnd.choice([x for x in range(2, n_max + 1) if x != n])
            if not (burn[0] == "frac" and saem.frac_ambiguous(burn[1], pn)):
                c["pilot_n"] = pn                     # the settings object served a pilot run with another n_iter before
        out.append(c)
    # directed ones (always present)
    out[:0] = [dict(n=10, burn=("frac", 5), pw=(4, 5), rnd=True, post_load=3), dict(n=9, burn=("frac", 5), pw=(4, 5), rnd=True, pilot_n=4),
               dict(n=5, burn=("count", 2), pw=(0, 0), rnd=True),
               dict(n=6, burn=("count", 0), pw=(4, 5), rnd=True),        # an explicit count of zero is a count
               dict(n=8, burn=("frac8", 3), pw=(13, 20), rnd=False),     # a fraction that is not a whole percent
               dict(n=7, burn=("count", 8), pw=(1, 1), rnd=True)]        # a count beyond the run
    return out[:count]


def run(ctx):
    q = ctx.quick
    ctx.rule = ("TLC explores every configuration (n_iter <= 12, burn-in as count 0..13 or fraction in tenths or eighths, six step "
                "powers incl. the refused 1/2, 11/10 and not-a-number) and every iteration of Saem.tla (PhaseRule, StepIndexRule, "
                "BurnInLength, PowerRefusedInv, BatchUpdate, SampledOnce, Termination). Real fits are run for sampled "
                "configurations on several model kinds (some with the count loaded into the algorithm after its construction, some with a "
                "settings object that served a pilot run with another n_iter before); the recorder derives from the statistics actually used whether "
                "they are memoryless and which step index m explains S_k = (1-m^-p) S_(k-1) + m^-p s_k for every "
                "component; TLC validates the event stream against SaemTrace.tla. Distinct = distinct "
                "(model kind, n_iter, burn-in spec, power).")
    ctx.assumptions = ["fractions whose float product int(frac*n_iter) differs from the exact floor are skipped (documented ambiguity)",
                       "an iteration where no statistic moved is recorded as not observable (counted)"]
    res = tlc.run("MC_Saem", "MC_Saem_schedule.cfg", workers=16, timeout=3000)
    tlc.require_ok(res, "MC_Saem_schedule")
    ctx.add_tlc("Saem schedule: n_iter 1..12 x 25 burn-in specs x 6 powers", res)
    ctx.log(f"TLC MC_Saem_schedule: {res.distinct} states, violated={res.violated} ({res.wall:.1f}s)")
    if res.violated:
        ctx.violation({"check": "design", "invariant": res.violated[0]}, f"Saem.tla violates {res.violated}", replay=res.trace_text[:4000])
    rnd = random.Random(ctx.seed)
    kinds = ["logistic_diag_src1", "linear_scalar_src1", "joint_src1"] if q else list(zoo.CONFIGS)
    per_kind = 17 if q else 60
    unobservable = 0
    first = None
    for kind in kinds:
        cfgs = configs(rnd, per_kind)
        events = []
        vars_ = params = None
        for i, c in enumerate(cfgs):
            w = os.path.join(ctx.tmp, f"w_{kind}_{i}")
            os.makedirs(w, exist_ok=True)
            evs, info = saem.run_config(kind, c, seed=ctx.seed + i, workdir=w, n_ind=8, reuse_algo=(i % 4 == 0))
            events += evs
            if info.get("vars"):
                vars_, params = info["vars"], info["params_names"]
            ctx.case(key=(kind, c["n"], c["burn"], c["pw"]))
            unobservable += sum(1 for e in evs if e["op"] == "Maximized" and (e["m"] == -1 or e["memoryless"] == "amb"))
        ok, k, res = saem.validate(events, vars_, params, os.path.join(ctx.tmp, "tr"), f"C05_{kind}")
        ctx.traces += len(cfgs)
        ctx.states += res.distinct
        ctx.transitions += res.generated
        ctx.log(f"{kind}: {len(cfgs)} runs, {len(events)} events -> {'accepted' if ok else f'REJECTED at event {k}'} ({res.wall:.1f}s)")
        if ok and first is None:
            first = (kind, events, vars_, params)
        if not ok:
            e = events[k]
            start = max(i for i in range(k + 1) if events[i]["op"] == "RunStart")
            ctx.violation({"check": "trace", "kind": kind, "event_op": e["op"]},
                          f"fit of {kind} is not a behaviour of Saem.tla at event {e} of run {events[start]}",
                          replay={"run": events[start], "event": e})
    ctx.sample({"run": first[1][0], "first_maximized": next(e for e in first[1] if e["op"] == "Maximized")} if first else "none accepted")
    ctx.extra["unobservable_iterations"] = unobservable
    # binding self-test
    if first:
        import copy
        kind, events, vars_, params = first
        idx = next((i for i, e in enumerate(events) if e["op"] == "Maximized" and e["m"] >= 2), None)
        if idx is None:
            raise tlc.MachineryError("self-test: no averaged iteration recorded")
        bad = copy.deepcopy(events)
        bad[idx]["m"] += 1
        ok, k, res = saem.validate(bad, vars_, params, os.path.join(ctx.tmp, "tr"), "C05_selftest")
        if ok or k != idx:
            raise tlc.MachineryError(f"binding self-test failed: step index off by one accepted={ok} at {k} (expected {idx})")
        ctx.log(f"self-test: step index off by one at event {idx} -> rejected (as required)")
    ctx.exhaustive = False


def replay(ctx, path):
    import json
    print(json.dumps(json.load(open(path)), indent=1))
    run(ctx)
