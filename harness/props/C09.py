"""C09 - individual trajectories follow the documented closed form (Trajectory.tla)."""
import os
import random

from .. import cases, tlc
from ..drivers import trajectory as tj

CFG_T = """SPECIFICATION TSpec
CONSTANTS
  Kinds = {}
  Requests = {}
  Forms = {}
  DupOK = TRUE
  XiSets = {}
INVARIANT EstimateConforms
INVARIANT GaugeConforms
"""
CFG_E = """SPECIFICATION Spec
CONSTANTS
  Kinds = {"logistic", "linear", "shared"}
  Requests <- MCRequests
  Forms = {"dict", "index"}
  DupOK = TRUE
  XiSets <- OneXi
"""


def run(ctx):
    q = ctx.quick
    ctx.level = "other"
    ctx.rule = ("TLC states the trajectory of each model kind as a symbolic term (Trajectory.tla: reparametrized age, logistic / "
                "linear / shared-speed logistic curve of one feature) and enumerates every request of 1-3 (1-4 in the thorough tier) <<individual, age>> "
                "pairs (2 individuals, 3 ages; interleaved, repeated, unsorted) in dict and MultiIndex form, checking EchoIdsAndAges "
                "and OrderPreserved of the layout machine; each enumerated request is run through model.estimate on one model "
                "object per configuration whose parameters are replaced in place (load_parameters) before every request, with "
                "seeded individual parameters and ages (sometimes exactly 0 or exactly the reference time); TLC checks the returned "
                "rows against the layout machine and the verdicts of the driver (TrajectoryTrace.tla): every value equals the "
                "evaluated term, outputs in [0,1], non-decreasing in age (repeated ages equal), 1/(1+g) at the reference time for an "
                "unshifted individual, finite 400 years away. Distinct = distinct (configuration, request, form).")
    ctx.assumptions = ["value equality rests on the float64 term evaluator; tolerance 2e-5 + 2e-4 relative",
                       "space shifts are read from the model's mixing matrix (its construction is C10's concern)"]
    tmp = os.path.join(ctx.tmp, "traj")
    os.makedirs(tmp, exist_ok=True)
    res = tlc.run("MC_Trajectory", "MC_Trajectory_layout.cfg", workers=8)
    tlc.require_ok(res, "MC_Trajectory_layout")
    ctx.add_tlc("Trajectory layout machine (design)", res)
    if res.violated:
        ctx.violation({"check": "design", "invariant": res.violated[0]}, f"Trajectory.tla violates {res.violated}", replay=res.trace_text[:3000])
    ecfg = os.path.join(tmp, "enum.cfg")
    with open(ecfg, "w") as f:
        f.write(CFG_E if q else CFG_E.replace("Requests <- MCRequests", "Requests <- MCRequests4"))
    _, cs = cases.enumerate_cases("MC_Trajectory", ecfg, tmp, "traj")
    rnd = random.Random(ctx.seed)
    configs = ["logistic_diag_src1", "linear_scalar_src1", "shared_speed_src1", "joint_src1"] if q else list(tj.KIND_OF)
    recs = []
    for cfg in configs:
        mut = tj.ModelUnderTest(cfg, ctx.seed + 1)
        mine = [c for c in cs if str(c["kind"]) == mut.kind and (not cfg.startswith("joint") or str(c["form"]) == "dict")]
        rnd.shuffle(mine)
        for c in mine[: ((170 if not cfg.startswith("joint") else 60) if q else len(mine))]:
            recs.append(tj.run_estimate_case(mut, c, rnd))
            ctx.case(key=(cfg, repr(c["req"]), str(c["form"])))
    ok, idx, r2 = cases.validate_records("TrajectoryTrace", CFG_T, recs, tmp, "conf")
    ctx.traces += len(recs)
    ctx.states += r2.distinct
    ctx.transitions += r2.generated
    ctx.log(f"{len(recs)} estimate requests on {len(configs)} configurations -> {'all conform' if ok else 'MISMATCH'} ({r2.wall:.1f}s)")
    ctx.sample(recs[3])
    dup = [r for r in recs if r["form"] == "index" and r["status"] == "ok" and len(r["rows"]) != len(r["req"])]
    if dup:
        ctx.violation({"check": "layout", "deviation": "index_duplicates"},
                      f"estimate() with a MultiIndex containing a repeated (ID, TIME) returns that row multiplied ({len(dup)} requests), e.g. "
                      f"{dup[0]['req']} -> {len(dup[0]['rows'])} rows", replay=dup[0])
    if not ok:
        for r in recs:
            failed = [k for k in ("shape_ok", "values_match", "in_unit_interval", "monotone", "reference_value", "far_finite") if not r[k]]
            n_exp = len(r["req"]) if r["form"] == "index" else len({x[0] for x in r["req"]})
            rows_bad = r["status"] == "ok" and not failed and True
            if r["status"] != "ok" or failed:
                ctx.violation({"check": "estimate", "config": r["config"], "failed": (failed or [r["status"][:40]])[0], "form": r["form"]},
                              f"estimate() of {r['config']} on request {r['req']} ({r['form']}): {failed or r['status']}; rows {r['rows']}", replay=r)
            _ = (n_exp, rows_bad)
        if not ctx.violations:
            bad = recs[idx] if idx is not None else None
            ctx.violation({"check": "estimate_rows", "form": bad and bad["form"]}, f"estimate() returned rows {bad and bad['rows']} for request {bad and bad['req']}", replay=bad)
    import copy
    good = next(r for r in recs if r["status"] == "ok" and r["form"] == "index" and len(r["rows"]) >= 2 and r["rows"][0] != r["rows"][1] and len(r["rows"]) == len(r["req"]))
    bad = copy.deepcopy(good)
    bad["rows"][0], bad["rows"][1] = bad["rows"][1], bad["rows"][0]
    ok, idx, _ = cases.validate_records("TrajectoryTrace", CFG_T, [good, bad], tmp, "selftest")
    if ok or idx != 1:
        raise tlc.MachineryError("binding self-test failed: swapped rows accepted")
    ctx.log("self-test: swapped rows rejected (as required)")
    ctx.exhaustive = False


def replay(ctx, path):
    import json
    print(json.dumps(json.load(open(path)), indent=1))
    run(ctx)
