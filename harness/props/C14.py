"""C14 - data ingestion yields one canonical tensor form and rejects malformed input (Ingest.tla)."""
import os
import random

from .. import cases, tlc
from ..drivers import ingest

CFG_T = """SPECIFICATION TSpec
CONSTANTS
  Ids = {{"A", "B"}}
  AgeKinds = {ages}
  ValKinds = {vals}
  NFeat = {nfeat}
  MaxRows = {maxrows}
  IdKinds = {idkinds}
  TextCols = {texts}
INVARIANT Conforms
INVARIANT RoundTrip
{extra}"""
CFG_E = CFG_T.replace("SPECIFICATION TSpec", "SPECIFICATION Spec").replace("INVARIANT Conforms\nINVARIANT RoundTrip\n", "")
Q = lambda xs: "{" + ", ".join(f'"{x}"' for x in xs) + "}"   # noqa: E731
ALLK = ["str", "int", "cat", "negint", "float", "emptystr", "nanid", "mixed"]


def run(ctx):
    q = ctx.quick
    ctx.rule = ("TLC checks OneRowPerIndividual, VisitsSorted, Aligned, CountsRight, PermutationInvariant (all row permutations) and "
                "RejectsExactlyMalformed of Ingest.tla on every table of <= 3 rows (2 ids, ages incl. a pair equal after rounding "
                "and NaN, values incl. NaN / inf; 1-2 features; 8 identifier typings; text columns). TLC enumerates every table "
                "of <= 2 rows (3 in the thorough tier); each is built as a real DataFrame and ingested "
                "(Data.from_dataframe, Dataset, to_pandas, re-ingestion); TLC compares the recorded canonical form, exception "
                "class, tensor padding / mask / counters and the untouched input with Canon(table) (IngestTrace.tla), and checks "
                "the records cover the enumerated space. Larger tables are sampled. Distinct = distinct (table, id typing, text).")
    ctx.assumptions = ["visit layout (ID, TIME, features); event / joint layouts are exercised by C12-C13 drivers"]
    tmp = os.path.join(ctx.tmp, "ing")
    os.makedirs(tmp, exist_ok=True)
    for name in ("MC_Ingest1.cfg", "MC_Ingest2.cfg"):
        res = tlc.run("Ingest", name, workers=16, timeout=3000)
        tlc.require_ok(res, name)
        ctx.add_tlc(f"Ingest design {name}", res)
        ctx.log(f"TLC {name}: {res.distinct} tables, violated={res.violated} ({res.wall:.1f}s)")
        if res.violated:
            ctx.violation({"check": "design", "invariant": res.violated[0]}, f"Ingest.tla violates {res.violated}", replay=res.trace_text[:3000])
    spaces = [
        dict(tag="s1", ages=["1", "2", "2r", "nan"], vals=["x", "y", "nan", "inf"], nfeat=1, maxrows=2 if q else 3, idkinds=["str", "int"], texts="{FALSE}"),
        dict(tag="s2", ages=["1", "2"], vals=["x", "nan"], nfeat=2, maxrows=2 if q else 3, idkinds=ALLK, texts="{FALSE, TRUE}"),
    ]
    rnd = random.Random(ctx.seed)
    for sp in spaces:
        kw = dict(ages=Q(sp["ages"]), vals=Q(sp["vals"]), nfeat=sp["nfeat"], maxrows=sp["maxrows"], idkinds=Q(sp["idkinds"]), texts=sp["texts"])
        ecfg = os.path.join(tmp, f"enum_{sp['tag']}.cfg")
        with open(ecfg, "w") as f:
            f.write(CFG_E.format(extra="", **kw))
        res, cs = cases.enumerate_cases("Ingest", ecfg, tmp, sp["tag"])
        recs = []
        for c in cs:
            rows = [{"id": r["id"], "age": r["age"], "vals": list(r["vals"])} for r in c["table"]]
            recs.append(ingest.run_case(rows, str(c["idkind"]), bool(c["text"]), sp["nfeat"]))
        # sampled larger tables (code side only; the design side is exhaustive up to 3 rows)
        extra = []
        for _ in range(600 if q else 6000):
            rows = ingest.random_table(rnd, sp["nfeat"], 4 if q else 5, sp["ages"], sp["vals"])
            extra.append(ingest.run_case(rows, rnd.choice(sp["idkinds"]), sp["texts"] != "{FALSE}" and rnd.random() < 0.15, sp["nfeat"]))
        for part, rs, expect in (("enum", recs, len(cs)), ("sampled", extra, 0)):
            kw2 = dict(kw)
            kw2["maxrows"] = 5
            cfg_text = CFG_T.format(extra="INVARIANT Covered\n" if expect else "", **kw2)
            ok, idx, r2 = cases.validate_records("IngestTrace", cfg_text, rs, tmp, f"{sp['tag']}_{part}", env={"EXPECT_COUNT": str(expect)})
            ctx.traces += len(rs)
            ctx.states += r2.distinct
            ctx.transitions += r2.generated
            for r in rs:
                ctx.case(key=(repr(r["rows"]), r["idkind"], r["text"]))
            n_ok = sum(r["status"] == "ok" for r in rs)
            ctx.log(f"{sp['tag']}/{part}: {len(rs)} tables ingested ({n_ok} accepted, {len(rs) - n_ok} refused) -> "
                    f"{'all conform' if ok else 'MISMATCH'} ({r2.wall:.1f}s)")
            if not ok:
                bad = rs[idx] if idx is not None else None
                ctx.violation({"check": "conformance", "violated": r2.violated[0], "status": bad and bad["status"], "idkind": bad and bad["idkind"]},
                              f"ingestion differs from Ingest.tla Canon(table) ({r2.violated}) on {bad}", replay=bad)
        reordered = [r for r in recs + extra if r["status"] == "ok" and r["form2"]["order"] != r["form"]["order"]]
        if reordered:
            # to_pandas + re-ingestion returns the individuals sorted by identifier instead of in the original order
            ctx.violation({"check": "roundtrip_order", "form2_order": "sorted_by_identifier"},
                          f"round trip through to_pandas re-orders individuals ({len(reordered)} tables), e.g. {reordered[0]['rows']}",
                          replay=reordered[0])
        ctx.sample(next(r for r in recs if r["status"] == "ok" and len(r["rows"]) >= 2))
        ctx.sample(next(r for r in recs if r["status"] != "ok" and len(r["rows"]) >= 2))
    # binding self-test
    good = next(r for r in recs if r["status"] == "ok" and len(r["form"]["order"]) == 2)
    bad = dict(good)
    bad["form"] = dict(good["form"], order=list(reversed(good["form"]["order"])))
    cfg_text = CFG_T.format(extra="", **dict(kw, maxrows=5))
    bad["form"]["visits"] = list(reversed(good["form"]["visits"])) if good["form"]["visits"][0] == good["form"]["visits"][1] else good["form"]["visits"]
    ok, idx, _ = cases.validate_records("IngestTrace", cfg_text, [good, bad], tmp, "selftest", env={"EXPECT_COUNT": "0"})
    if ok or idx != 1:
        raise tlc.MachineryError("binding self-test failed: swapped individuals accepted")
    ctx.log("self-test: record with swapped individual order rejected (as required)")
    ctx.exhaustive = True


def replay(ctx, path):
    import json
    print(json.dumps(json.load(open(path)), indent=1))
    run(ctx)
