"""C14 - data ingestion yields one canonical tensor form and rejects malformed input (Ingest.tla)."""
import os
import random

from .. import cases, tlc
from ..drivers import ingest, ingest_layouts

CFG_T = """SPECIFICATION TSpec
CONSTANTS
  Ids = {{"A", "B"}}
  AgeKinds = {ages}
  ValKinds = {vals}
  NFeat = {nfeat}
  MaxRows = {maxrows}
  IdKinds = {idkinds}
  TextCols = {texts}
INVARIANT Conforms
INVARIANT RoundTrip
{extra}"""
CFG_E = CFG_T.replace("SPECIFICATION TSpec", "SPECIFICATION Spec").replace("INVARIANT Conforms\nINVARIANT RoundTrip\n", "")
Q = lambda xs: "{" + ", ".join(f'"{x}"' for x in xs) + "}"   # noqa: E731
ALLK = ["str", "int", "cat", "negint", "float", "emptystr", "nanid", "mixed", "nullint", "catnan"]


def run(ctx):
    q = ctx.quick
    ctx.rule = ("TLC checks OneRowPerIndividual, VisitsSorted, Aligned, CountsRight, PermutationInvariant (all row permutations) and "
                "RejectsExactlyMalformed of Ingest.tla on every table of <= 3 rows (2 ids, ages incl. a pair equal after rounding "
                "and NaN, values incl. NaN / inf; 1-2 features; 10 identifier typings; text columns). TLC enumerates every table "
                "of <= 2 rows (3 in the thorough tier); each is built as a real DataFrame and ingested "
                "(Data.from_dataframe, Dataset, to_pandas, re-ingestion); TLC compares the recorded canonical form, exception "
                "class, tensor padding / mask / counters and the untouched input with Canon(table) (IngestTrace.tla), and checks "
                "the records cover the enumerated space. Larger tables are sampled. Distinct = distinct (table, id typing, text).")
    ctx.rule += (" Event, joint and covariate layouts: TLC checks PermutationInvariant, OnePerIndividual and AcceptedIsConsistent of "
                 "IngestLayouts.tla on every table of <= 3 rows and on the family 'three rows of one individual in any age order + one "
                 "row of another'; the enumerated tables (<= 2 rows, 3 for event / covariate in the thorough tier, the family, sampled "
                 "3-row joint tables) are ingested for real and TLC compares verdict, order, sorted visits with aligned values, event, "
                 "covariate, tensor rows, untouched input and the re-ingested round trip with Canon(table) (IngestLayoutsTrace.tla).")
    ctx.assumptions = ["the event-only layout lists individuals sorted by identifier (no visits: 'order of first appearance' is stated for tables of visits)",
                       "as built: a joint / event table where every event is censored, and a covariate taking a single value, are refused"]
    tmp = os.path.join(ctx.tmp, "ing")
    os.makedirs(tmp, exist_ok=True)
    for name in ("MC_Ingest1.cfg", "MC_Ingest2.cfg"):
        res = tlc.run("Ingest", name, workers=16, timeout=3000)
        tlc.require_ok(res, name)
        ctx.add_tlc(f"Ingest design {name}", res)
        ctx.log(f"TLC {name}: {res.distinct} tables, violated={res.violated} ({res.wall:.1f}s)")
        if res.violated:
            ctx.violation({"check": "design", "invariant": res.violated[0]}, f"Ingest.tla violates {res.violated}", replay=res.trace_text[:3000])
    spaces = [
        dict(tag="s1", ages=["1", "2", "2r", "nan"], vals=["x", "y", "nan", "inf"], nfeat=1, maxrows=2 if q else 3, idkinds=["str", "int"], texts="{FALSE}"),
        dict(tag="s2", ages=["1", "2"], vals=["x", "nan"], nfeat=2, maxrows=2 if q else 3, idkinds=ALLK, texts="{FALSE, TRUE}"),
    ]
    rnd = random.Random(ctx.seed)
    for sp in spaces:
        kw = dict(ages=Q(sp["ages"]), vals=Q(sp["vals"]), nfeat=sp["nfeat"], maxrows=sp["maxrows"], idkinds=Q(sp["idkinds"]), texts=sp["texts"])
        ecfg = os.path.join(tmp, f"enum_{sp['tag']}.cfg")
        with open(ecfg, "w") as f:
            f.write(CFG_E.format(extra="", **kw))
        res, cs = cases.enumerate_cases("Ingest", ecfg, tmp, sp["tag"])
        recs = []
        for c in cs:
            rows = [{"id": r["id"], "age": r["age"], "vals": list(r["vals"])} for r in c["table"]]
            recs.append(ingest.run_case(rows, str(c["idkind"]), bool(c["text"]), sp["nfeat"]))
        # sampled larger tables (code side only; the design side is exhaustive up to 3 rows)
        extra = []
        for _ in range(600 if q else 6000):
            rows = ingest.random_table(rnd, sp["nfeat"], 4 if q else 5, sp["ages"], sp["vals"])
            extra.append(ingest.run_case(rows, rnd.choice(sp["idkinds"]), sp["texts"] != "{FALSE}" and rnd.random() < 0.15, sp["nfeat"]))
        for part, rs, expect in (("enum", recs, len(cs)), ("sampled", extra, 0)):
            kw2 = dict(kw)
            kw2["maxrows"] = 5
            cfg_text = CFG_T.format(extra="INVARIANT Covered\n" if expect else "", **kw2)
            ok, idx, r2 = cases.validate_records("IngestTrace", cfg_text, rs, tmp, f"{sp['tag']}_{part}", env={"EXPECT_COUNT": str(expect)})
            ctx.traces += len(rs)
            ctx.states += r2.distinct
            ctx.transitions += r2.generated
            for r in rs:
                ctx.case(key=(repr(r["rows"]), r["idkind"], r["text"]))
            n_ok = sum(r["status"] == "ok" for r in rs)
            ctx.log(f"{sp['tag']}/{part}: {len(rs)} tables ingested ({n_ok} accepted, {len(rs) - n_ok} refused) -> "
                    f"{'all conform' if ok else 'MISMATCH'} ({r2.wall:.1f}s)")
            if not ok:
                bad = rs[idx] if idx is not None else None
                ctx.violation({"check": "conformance", "violated": r2.violated[0], "status": bad and bad["status"], "idkind": bad and bad["idkind"]},
                              f"ingestion differs from Ingest.tla Canon(table) ({r2.violated}) on {bad}", replay=bad)
        reordered = [r for r in recs + extra if r["status"] == "ok" and r["form2"]["order"] != r["form"]["order"]]
        if reordered:
            # to_pandas + re-ingestion returns the individuals sorted by identifier instead of in the original order
            ctx.violation({"check": "roundtrip_order", "form2_order": "sorted_by_identifier"},
                          f"round trip through to_pandas re-orders individuals ({len(reordered)} tables), e.g. {reordered[0]['rows']}",
                          replay=reordered[0])
        ctx.sample(next(r for r in recs if r["status"] == "ok" and len(r["rows"]) >= 2))
        ctx.sample(next(r for r in recs if r["status"] != "ok" and len(r["rows"]) >= 2))
    run_layouts(ctx, tmp, rnd)
    # binding self-test
    good = next(r for r in recs if r["status"] == "ok" and len(r["form"]["order"]) == 2)
    bad = dict(good)
    bad["form"] = dict(good["form"], order=list(reversed(good["form"]["order"])))
    cfg_text = CFG_T.format(extra="", **dict(kw, maxrows=5))
    bad["form"]["visits"] = list(reversed(good["form"]["visits"])) if good["form"]["visits"][0] == good["form"]["visits"][1] else good["form"]["visits"]
    ok, idx, _ = cases.validate_records("IngestTrace", cfg_text, [good, bad], tmp, "selftest", env={"EXPECT_COUNT": "0"})
    if ok or idx != 1:
        raise tlc.MachineryError("binding self-test failed: swapped individuals accepted")
    ctx.log("self-test: record with swapped individual order rejected (as required)")
    run_container(ctx, tmp)
    ctx.exhaustive = False   # the enumerated small tables are complete, larger tables and the joint family are sampled


LAYOUT_CFGS = {"joint": ("MC_IngestLayouts_joint.cfg", "MC_IngestLayouts_joint_31.cfg"),
               "event": ("MC_IngestLayouts_event.cfg",),
               "covariate": ("MC_IngestLayouts_covariate.cfg", "MC_IngestLayouts_covariate_31.cfg")}


def run_layouts(ctx, tmp, rnd):
    """Event / joint / covariate layouts (IngestLayouts.tla): design check, enumeration, execution, conformance."""
    q = ctx.quick
    spec_dir = tlc.SPECS
    for layout, cfgs in LAYOUT_CFGS.items():
        for cfg in cfgs:
            text = open(os.path.join(spec_dir, cfg)).read()
            family31 = cfg.endswith("_31.cfg")
            # the design is checked on the full configuration; the code runs every table of the enumeration configuration
            res = tlc.run("IngestLayouts", cfg, workers=16, timeout=3000)
            tlc.require_ok(res, cfg)
            ctx.add_tlc(f"IngestLayouts design {cfg}", res)
            if res.violated:
                ctx.violation({"check": "design", "invariant": res.violated[0]}, f"IngestLayouts.tla violates {res.violated} ({cfg})", replay=res.trace_text[:3000])
            etext = text if family31 else text.replace("MaxRows = 3", f"MaxRows = {2 if (q or layout == 'joint') else 3}")
            etext = "\n".join(l for l in etext.splitlines() if not l.startswith("INVARIANT")) + "\n"
            ecfg = os.path.join(tmp, "enum_" + cfg)
            with open(ecfg, "w") as f:
                f.write(etext)
            res2, cs = cases.enumerate_cases("IngestLayouts", ecfg, tmp, "il_" + cfg[:-4])
            tables = [[{"id": str(r["id"]), "age": int(r["age"]), "et": str(r["et"]), "eb": int(r["eb"]), "cov": str(r["cov"])} for r in c["table"]] for c in cs]
            n_all = len(tables)
            expect = n_all
            if family31 and layout == "joint" and q:
                rnd.shuffle(tables)
                tables, expect = tables[:700], 0
            if not family31 and not q and layout == "joint":
                # three-row joint tables: a seeded sample (the full space has 46 656 tables; the design side is exhaustive)
                pool = ["0", "2", "nan"]
                extra = [[{"id": rnd.choice("ab"), "age": rnd.choice([1, 2, 3]), "et": rnd.choice(pool), "eb": rnd.choice([0, 1]), "cov": "none"}
                          for _ in range(3)] for _ in range(6000)]
                tables, expect = tables + extra, 0
            recs = [ingest_layouts.run_case(layout, t) for t in tables]
            send = [{k: v for k, v in r.items() if k not in ("roundtrip_note", "roundtrip_order_kept")} for r in recs]
            ttext = etext.replace("SPECIFICATION Spec", "SPECIFICATION TSpec").replace("MaxRows = 2", "MaxRows = 4") + \
                "INVARIANT Conforms\n" + ("INVARIANT Covered\n" if expect else "")
            ok, idx, r2 = cases.validate_records("IngestLayoutsTrace", ttext, send, tmp, "ilc_" + cfg[:-4], env={"EXPECT_COUNT": str(expect)})
            ctx.traces += len(recs)
            ctx.states += r2.distinct
            ctx.transitions += r2.generated
            for r in recs:
                ctx.case(key=(layout, repr(r["table"])))
            n_ok = sum(r["status"] == "ok" for r in recs)
            ctx.log(f"{layout}/{cfg[16:-4]}: design {res.distinct} tables; {len(recs)} of {n_all} enumerated tables ingested ({n_ok} accepted, "
                    f"{len(recs) - n_ok} refused) -> {'all conform' if ok else 'MISMATCH'} ({r2.wall:.1f}s)")
            if not ok:
                bad = recs[idx] if idx is not None else None
                ctx.violation({"check": "layout_conformance", "layout": layout, "status": bad and bad["status"]},
                              f"{layout} ingestion differs from IngestLayouts.tla Canon(table) on {bad}", replay=bad)
            elif n_ok == 0 or n_ok == len(recs):    # (a conforming batch without accepted / refused tables would decide nothing)
                raise tlc.MachineryError(f"vacuity: {layout}/{cfg} has {n_ok} accepted tables of {len(recs)}")
            if not family31 and n_ok:
                ctx.sample(next(r for r in recs if r["status"] == "ok" and len(r["table"]) >= 2))


CFG_DC = """SPECIFICATION TSpec
CONSTANTS
  Base <- MCBase
  Ops <- MCOps
  MaxLen = 2
INVARIANT Conforms
INVARIANT Covered
"""


def run_container(ctx, tmp):
    """Beyond the listed property (conformance notes, never part of the verdict): the Data container as an ordered collection
    (DataContainer.tla) - every chain of two selections enumerated by TLC performed on a real Data object."""
    from ..drivers import datacontainer as dc
    res, cs = cases.enumerate_cases("MC_DataContainer", "MC_DataContainer.cfg", tmp, "dc")
    ctx.add_tlc("DataContainer: chains of <= 2 selections (design)", res)
    if res.violated:
        ctx.violation({"check": "design", "invariant": res.violated[0]}, f"DataContainer.tla violates {res.violated}", replay=res.trace_text[:3000])
    recs = [dc.run_case(c) for c in cs]
    ok, idx, r2 = cases.validate_records("DataContainerTrace", CFG_DC, recs, tmp, "dc_conf", env={"EXPECT_COUNT": str(len(cs))})
    ctx.traces += len(recs)
    ctx.states += r2.distinct
    ctx.transitions += r2.generated
    note = None
    if not ok:
        bad = recs[idx] if idx is not None else None
        note = f"Data container differs from DataContainer.tla on {bad}"
    ctx.extra["container_notes"] = {"chains": len(recs), "conform": bool(ok), "example": note}
    ctx.log(f"notes (not part of the verdict): DataContainer.tla, {len(recs)} chains of selections on a real Data object -> "
            f"{'all conform' if ok else note[:400]}")


def replay(ctx, path):
    import json
    print(json.dumps(json.load(open(path)), indent=1))
    run(ctx)
