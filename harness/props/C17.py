"""C17 - personalization returns one aligned, finite, non-worsening estimate per subject (Personalize.tla)."""
import os
import random

from .. import cases, tlc
from ..drivers import personalize as pe

CFG_T = """SPECIFICATION TSpec
INVARIANT Conforms
"""
KINDS_Q = ["logistic_diag_src1", "joint_src1", "linear_scalar_src1"]
KINDS_T = ["logistic_diag_src1", "logistic_scalar_src1", "logistic_diag_nosrc", "logistic_univariate", "logistic_binary", "linear_diag_src1",
           "linear_scalar_src1", "shared_speed_src1", "joint_src1", "joint_nosrc", "joint_univariate"]


def run(ctx):
    q = ctx.quick
    ctx.rule = ("TLC checks KeptExactly, ModeIsArgmin (first draw on ties), MeanOverKept and AcceptedReturns of Personalize.tla for "
                "every number of iterations <= 5, every burn-in length, 2 individuals and 3 abstract loss levels; real "
                "mean_posterior / mode_posterior runs (model kinds x n_iter 2..6 x burn-in fractions incl. 0 and 1 x annealing x "
                "cohorts with missing data, a one-visit subject, identifiers in non-sorted order, a subject whose scores are all missing - known only by its early event for the joint model) are recorded: the chain after "
                "every iteration, the samples handed to the estimator, attachment + regularity per draw; TLC checks "
                "(PersonalizeTrace.tla) that exactly the iterations after burn-in are kept, that the mode is the first kept draw of "
                "lowest loss per individual, the mean bit-equal to the mean of the kept draws, and that outputs are keyed by the "
                "input identifiers in input order, finite and shaped as the model expects; scipy_minimize runs (with / without "
                "jacobian, default budget and a one-iteration budget that ends on a convergence issue) are recorded through the optimiser "
                "call; the harness evaluates the objective of every individual at the RETURNED parameters on its own data: not worse "
                "than at the starting point of its optimisation and equal to the value its optimisation reached. Distinct = distinct (kind, algorithm, setting, cohort variant).")
    ctx.assumptions = ["mixture_logistic personalization is a known finding (fails for every algorithm) and is reported, not explored"]
    tmp = os.path.join(ctx.tmp, "pe")
    os.makedirs(tmp, exist_ok=True)
    res = tlc.run("Personalize", "MC_Personalize.cfg", workers=16)
    tlc.require_ok(res, "MC_Personalize")
    ctx.add_tlc("Personalize bookkeeping: n <= 5, all burn-in lengths, 2 individuals, 3 loss levels", res)
    ctx.log(f"TLC MC_Personalize: {res.distinct} states, violated={res.violated} ({res.wall:.1f}s)")
    if res.violated:
        ctx.violation({"check": "design", "invariant": res.violated[0]}, f"Personalize.tla violates {res.violated}", replay=res.trace_text[:3000])
    rnd = random.Random(ctx.seed)
    kinds = KINDS_Q if q else KINDS_T
    recs = []
    variants = ["plain", "missing", "one_visit", "unsorted_ids"]
    for kind in kinds:
        combos = [(a, n, f, an, v) for a in ("mean", "mode") for n in (2, 3, 5, 6) for f in (0, 3, 5, 9, 10) for an in (False, True) for v in variants]
        rnd.shuffle(combos)
        must = [("mean", 4, 10, False, "plain"), ("mode", 5, 0, True, "missing"), ("mode", 6, 5, False, "unsorted_ids"), ("mean", 6, 5, True, "one_visit")]
        for a, n, f, an, v in must + combos[: (6 if q else 60)]:
            recs.append(pe.run_sampling(kind, a, n, f, an, v, ctx.seed + 1))
            ctx.case(key=(kind, a, n, f, an, v))
        for v in ((variants + ["nan_subject"]) if not q else ["missing", "unsorted_ids", "nan_subject"]):
            for jac in ((False,) if q else (False, True)):
                recs.append(pe.run_optim(kind, v, ctx.seed + 2, jac))
                ctx.case(key=(kind, "scipy", v, jac))
        recs.append(pe.run_optim(kind, "plain", ctx.seed + 3, False, budget="one_iteration"))
        ctx.case(key=(kind, "scipy", "plain", "one_iteration"))
    recs = [r for r in recs if r["status"] != "skipped_float_ambiguity"]
    send = [{k: v for k, v in r.items() if k != "objective_pairs"} for r in recs]
    ok, idx, r2 = cases.validate_records("PersonalizeTrace", CFG_T, send, tmp, "conf")
    ctx.traces += len(recs)
    ctx.states += r2.distinct
    ctx.transitions += r2.generated
    n_ref = sum(r["status"] == "refused" for r in recs)
    ctx.log(f"{len(recs)} personalizations on {len(kinds)} model kinds ({n_ref} refused settings) -> {'all conform' if ok else 'MISMATCH'} ({r2.wall:.1f}s)")
    ctx.sample(next(r for r in recs if r["type"] == "sampling" and r["status"] == "ok" and r["algo"] == "mode"))
    ctx.sample(next(r for r in recs if r["type"] == "optim"))
    if not ok:
        n = 0
        for r in recs:
            if r["status"] not in ("ok", "refused") or (r["status"] == "ok" and not _conforms(r)):
                n += 1
                if n <= 4:
                    ctx.violation({"check": "personalize", "type": r["type"], "algo": r["algo"], "status": r["status"][:30], "variant": r["variant"]},
                                  f"personalization of {r['kind']} ({r['algo']}, n={r['n']}, burn-in {r['frac']}/10, {r['variant']}): {_why(r)}", replay=r)
        if n == 0:
            bad = recs[idx] if idx is not None else None
            ctx.violation({"check": "personalize", "type": bad and bad["type"]}, f"record not explainable by Personalize.tla: {bad}", replay=bad)
    # the mixture model (known finding)
    try:
        import warnings
        from .. import zoo
        with warnings.catch_warnings():
            warnings.simplefilter("ignore")
            m, data, df = zoo.make("mixture_2")
            m.fit(data, "mcmc_saem", n_iter=5, seed=1, progress_bar=False)
            fails = []
            for algo, kw in (("mode_posterior", {"n_iter": 4}), ("mean_posterior", {"n_iter": 4}), ("scipy_minimize", {})):
                try:
                    m.personalize(data, algo, seed=1, progress_bar=False, **kw)
                except Exception as e:  # noqa: BLE001
                    fails.append(f"{algo}: {type(e).__name__}")
        if fails:
            ctx.violation({"check": "personalize_kind", "kind": "mixture_logistic"}, f"personalization of a fitted mixture model fails: {fails}", replay=fails)
    except Exception as e:  # noqa: BLE001
        ctx.log(f"mixture probe could not run: {e}")
    import copy
    good = next((r for r in send if r["type"] == "sampling" and r["status"] == "ok" and r["algo"] == "mode" and len(r["kept"]) >= 2 and _conforms(r)), None)
    if good is None:
        if ctx.violations:
            return
        raise tlc.MachineryError("no conforming mode_posterior record to run the binding self-test on")
    bad = copy.deepcopy(good)
    bad["kept"] = [x - 1 for x in bad["kept"]]
    ok, idx, _ = cases.validate_records("PersonalizeTrace", CFG_T, [good, bad], tmp, "selftest")
    if ok or idx != 1:
        raise tlc.MachineryError("binding self-test failed")
    ctx.exhaustive = False


def _conforms(r):
    base = r["ids_out"] == r["ids_in"] and r["one_set_each"] and r["all_finite"] and r["shapes_ok"]
    if r["type"] == "optim":
        return base and r["never_worse"] and r["values_belong_to_ids"]
    if r["n"] - r["nb"] <= 0:
        return False
    ok = base and r["kept"] == list(range(r["nb"] + 1, r["n"] + 1)) and r["nb"] == r["nb_expected"]
    if r["algo"] == "mean":
        return ok and r["mean_ok"]
    for i, ranks in enumerate(r["loss_ranks"]):
        a = ranks.index(min(ranks))
        ok = ok and r["chosen"][i] == r["kept"][a]
    return ok and r["mode_values_ok"]


def _why(r):
    if r["status"] not in ("ok", "refused"):
        return r["status"]
    out = []
    if r["ids_out"] != r["ids_in"]:
        out.append(f"identifiers {r['ids_out']} != input {r['ids_in']}")
    if r["type"] == "optim":
        out.append(f"objective (start, reached, at returned point) {r.get('objective_pairs')}")
    for k in ("one_set_each", "all_finite", "shapes_ok", "never_worse", "values_belong_to_ids") + (("mean_ok",) if r["algo"] == "mean" else ("mode_values_ok",)):
        if not r[k]:
            out.append(k)
    if r["type"] == "sampling":
        out.append(f"kept {r['kept']} (n={r['n']}, nb={r['nb']}), chosen {r['chosen']}, ranks {r['loss_ranks']}")
    return "; ".join(out)


def replay(ctx, path):
    import json
    print(json.dumps(json.load(open(path)), indent=1))
    run(ctx)
