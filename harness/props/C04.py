"""C04 - the maximization step is the closed-form maximizer of the sufficient statistics (MStep.tla, Saem.tla)."""
import os
import random

from .. import cases, tlc, zoo
from ..drivers import mstep, saem

CFG_T = """SPECIFICATION TSpec
CONSTANTS
  Xs = {}
  MOlds = {}
  Burns = {}
  CellGrids = {}
INVARIANT Conforms
INVARIANT RefusedWhole
INVARIANT Covered
"""


CFG_MIX = """SPECIFICATION TSpec
CONSTANTS
  Xs = {}
  W = 4
  Ws = {}
  MOlds = {}
  Burns = {}
INVARIANT Conforms
INVARIANT Covered
"""


def to_cells(fn):
    return [{"i": k[0], "v": k[1], "f": k[2], "c": str(v)} for k, v in sorted(fn.items())]


def run(ctx):
    q = ctx.quick
    ctx.rule = ("TLC evaluates the closed forms of MStep.tla exactly (rationals) on every cohort of 2-3 integer latent values x 3 "
                "pre-step means x {memory-less, normal} and on every observed / missing pattern of a 2x2x2 grid with a padded "
                "visit (VarNormalDominates, NoiseUsesObservedOnly, NoiseConsistent); every case is fed to the library's own "
                "update machinery (ModelParameter rules, Collect, Gaussian observation model, compute_sufficient_statistics, "
                "update_parameters) on a mini variable graph and TLC compares the resulting prior mean, prior variance, scalar and "
                "per-feature noise variance, the compute-then-assign order and the population-mean identity with the "
                "specification (MStepTrace.tla), checking the records cover the space; the mixture model's rules (probabilities, "
                "responsibility-weighted cluster means - scalar and vector-valued -, cluster dispersions in both phases) are stated in "
                "MixStep.tla (ProbsSumToOne, MeanIsConvex, TotalMean, EqualSplit, VarNonNegative) and every case - 2-3 individuals, "
                "responsibilities in quarters, two pre-step mean pairs - is run through the model's own parameter declarations "
                "(MixStepTrace.tla); real fits (incl. the mixture model and a "
                "run without memory-less phase) are validated against SaemTrace.tla (BatchUpdate, burn-in flag, statistics "
                "identity). Distinct = distinct case / (kind, configuration).")
    ctx.assumptions = ["squares of returned standard deviations are compared with the exact rationals within 2e-5 relative (float32)",
                       "mixture cases: the responsibilities are injected as log-responsibilities (the softmax of the code is applied to them)"]
    tmp = os.path.join(ctx.tmp, "ms")
    os.makedirs(tmp, exist_ok=True)
    fills = [7.5, float("nan"), 1e30, float("inf"), 0.0]
    for cfg in ("MC_MStep_lat.cfg", "MC_MStep_noise.cfg"):
        res, cs = cases.enumerate_cases("MC_MStep", cfg, tmp, cfg[:-4])
        ctx.add_tlc(f"MStep {cfg}", res)
        ctx.log(f"TLC {cfg}: {res.distinct} cases, violated={res.violated} ({res.wall:.1f}s)")
        if res.violated:
            ctx.violation({"check": "design", "invariant": res.violated[0]}, f"MStep.tla violates {res.violated}", replay=res.trace_text[:3000])
        recs = []
        for i, c in enumerate(cs):
            recs.append(mstep.run_case(list(c["xs"]), c["mold"], bool(c["burn"]), to_cells(c["cells"]), fill=fills[i % len(fills)]))
            if cfg.endswith("lat.cfg") and not bool(c["burn"]):
                # the same case with every deviation from the pre-step mean a thousand times smaller (dispersions below the bound)
                recs.append(mstep.run_case(list(c["xs"]), c["mold"], False, to_cells(c["cells"]), fill=fills[i % len(fills)], scale="tiny"))
        ok, idx, r2 = cases.validate_records("MStepTrace", CFG_T, recs, tmp, "conf_" + cfg[:-4], env={"EXPECT_COUNT": str(len(cs))})
        ctx.traces += len(recs)
        ctx.states += r2.distinct
        ctx.transitions += r2.generated
        for r in recs:
            ctx.case(key=(tuple(r["xs"]), r["mold"], r["burn"], repr(r["cells"]), r["scale"]))
        ctx.log(f"{cfg}: {len(recs)} cases run through the real update rules -> {'all conform' if ok else 'MISMATCH'} ({r2.wall:.1f}s)")
        ctx.sample({k: v for k, v in recs[len(recs) // 2].items() if k != "cells"})
        if not ok:
            bad = recs[idx] if idx is not None else None
            which = "?"
            if bad:
                which = "noise" if cfg.endswith("noise.cfg") else "latent"
            ctx.violation({"check": "conformance", "rules": which, "status": bad and bad["status"]},
                          f"update rules differ from MStep.tla on {bad}", replay=bad)
    # the mixture model's rules (MixStep.tla): every enumerated case through the model's own parameter declarations
    res, cs = cases.enumerate_cases("MC_MixStep", "MC_MixStep.cfg", tmp, "mix")
    ctx.add_tlc("MixStep MC_MixStep.cfg", res)
    ctx.log(f"TLC MC_MixStep.cfg: {res.distinct} cases, violated={res.violated} ({res.wall:.1f}s)")
    if res.violated:
        ctx.violation({"check": "design", "invariant": res.violated[0]}, f"MixStep.tla violates {res.violated}", replay=res.trace_text[:3000])
    recs = [mstep.run_mix_case(list(c["xs"]), list(c["ws"]), list(c["mold"]), bool(c["burn"]), far=bool(c["far"])) for c in cs]
    ok, idx, r2 = cases.validate_records("MixStepTrace", CFG_MIX, recs, tmp, "conf_mix", env={"EXPECT_COUNT": str(len(cs))})
    ctx.traces += len(recs)
    ctx.states += r2.distinct
    ctx.transitions += r2.generated
    for r in recs:
        ctx.case(key=("mix", tuple(r["xs"]), tuple(r["ws"]), tuple(r["mold"]), r["burn"], r["far"]))
    ctx.log(f"MC_MixStep.cfg: {len(recs)} cases run through the mixture model's update rules -> {'all conform' if ok else 'MISMATCH'} ({r2.wall:.1f}s)")
    ctx.sample(recs[len(recs) // 3])
    if not ok:
        bad = recs[idx] if idx is not None else None
        ctx.violation({"check": "conformance", "rules": "mixture", "status": bad and bad["status"][:40]},
                      f"mixture update rules differ from MixStep.tla on {bad}", replay=bad)
    # batched update / phase flag in real fits
    rnd = random.Random(ctx.seed)
    kinds = ["logistic_diag_src1", "mixture_2"] if q else ["logistic_diag_src1", "mixture_2", "joint_src1", "linear_scalar_src1", "shared_speed_src1"]
    good = None
    for kind in kinds:
        # (with entries missing inside visits, so that the noise rules see partially observed visits in both phases;
        # for the mixture model one run starts with a starved cluster)
        cfgs = [dict(n=5, burn=("count", 0), pw=(4, 5), rnd=True, missing=0.3), dict(n=6, burn=("count", 3), pw=(1, 1), rnd=True, missing=0.3),
                dict(n=4, burn=("frac", 10), pw=(4, 5), rnd=False)]
        if kind.startswith("mixture"):
            cfgs.append(dict(n=5, burn=("count", 3), pw=(4, 5), rnd=True, starve=True))
        events, vars_, params = [], None, None
        for i, c in enumerate(cfgs):
            w = os.path.join(ctx.tmp, f"w4_{kind}_{i}")
            os.makedirs(w, exist_ok=True)
            evs, info = saem.run_config(kind, c, seed=ctx.seed + i, workdir=w)
            events += evs
            if info.get("vars"):
                vars_, params = info["vars"], info["params_names"]
            ctx.case(key=(kind, c["n"], c["burn"]))
        ok, k, res = saem.validate(events, vars_, params, os.path.join(ctx.tmp, "tr4"), f"C04_{kind}", closed_forms=True)
        ctx.traces += len(cfgs)
        ctx.log(f"{kind}: {len(cfgs)} fits, {len(events)} events -> {'accepted' if ok else f'REJECTED at event {k}'}")
        if ok and good is None:
            good = (events, vars_, params)
        if not ok:
            e = events[k]
            ctx.violation({"check": "trace", "kind": kind, "event_op": e["op"]},
                          f"fit of {kind} is not a behaviour of Saem.tla at event {e}", replay={"event": e})
    if good:
        import copy
        events, vars_, params = good
        idx = next(i for i, e in enumerate(events) if e["op"] == "Maximized")
        bad = copy.deepcopy(events)
        st = bad[idx]["steps"]
        st[0], st[-1] = st[-1], st[0]
        ok, k, _ = saem.validate(bad, vars_, params, os.path.join(ctx.tmp, "tr4"), "C04_selftest", closed_forms=True)
        if ok or k != idx:
            raise tlc.MachineryError("binding self-test failed: an assignment before a computation was accepted")
        ctx.log("self-test: assignment before computation rejected (as required)")
    ctx.exhaustive = True


def replay(ctx, path):
    import json
    print(json.dumps(json.load(open(path)), indent=1))
    run(ctx)
