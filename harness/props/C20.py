"""C20 - benchmark models implement their documented estimators (Benchmarks.tla)."""
import os
import random
import warnings

import numpy as np
import pandas as pd

import leaspy.models  # noqa: F401
from leaspy.io.data import Data
from leaspy.io.outputs import IndividualParameters
from leaspy.models import model_factory

from .. import cases, tlc

CFG_T = """SPECIFICATION TSpec
CONSTANTS
  Histories = {}
  PredTypes = {}
  LmeCases = {}
INVARIANT Conforms
"""
NAN = 99
NOLME = {"ages": [0], "ys": [0], "b0": 0, "b1": 0, "c11": 1, "c12": 0, "c22": 1, "slope": False}


def rat(v, den, tol=1e-5):
    v = float(v)
    if v != v:
        return {"nan": True, "num": 0, "den": int(den), "close": False}
    num = int(round(v * den))
    return {"nan": False, "num": num, "den": int(den), "close": bool(abs(v * den - num) <= tol * max(1.0, abs(v * den)))}


def run_constant(hist, ptype, rnd, reuse="fresh"):
    """hist: list of (age rank, val).  Two features: the case's history and a companion (so that 'all NaN' is per feature)."""
    rec = {"part": "constant", "hist": [list(h) for h in hist], "ptype": ptype, "lme": NOLME, "status": "ok", "reuse": reuse, "repeat_same": True,
           "value": rat(float("nan"), 1), "repeated_at_every_age": False, "re0": rat(0, 1), "re1": rat(0, 1),
           "trajectory_is_line": True, "matches_reference_library": True}
    try:
        ages = {r: 60.0 + 2.5 * r for r, _ in hist}
        rows = [{"ID": "p", "TIME": ages[r], "F0": (np.nan if v == NAN else float(v)), "F1": float(rnd.randint(1, 3))} for r, v in hist]
        df = pd.DataFrame(rows)
        with warnings.catch_warnings():
            warnings.simplefilter("ignore")
            data = Data.from_dataframe(df, drop_full_nan=False)
            model = model_factory("constant")
            pt = {"last_known": "last-known"}.get(ptype, ptype)   # (the docstring spells it last_known; the accepted value is last-known)
            if reuse != "fresh":
                # the previous use of the same model object: another data set, columns swapped or named differently
                prev = pd.DataFrame({"ID": ["z", "z"], "TIME": [61.0, 63.0], "A": [2.0, 3.0], "B": [1.0, np.nan]})
                prev = prev.rename(columns={"A": "F1", "B": "F0"} if reuse == "swapped_columns" else {"A": "G0", "B": "G1"})
                ips0 = model.personalize(Data.from_dataframe(prev), "constant_prediction", prediction_type=pt)
                model.estimate({"z": [62.0]}, ips0)
            ips = model.personalize(data, "constant_prediction", prediction_type=pt)
            est = model.estimate({"p": [50.0, 61.0, 99.5]}, ips)["p"]
        known = [v for _, v in hist if v != NAN]
        den = len(known) if (ptype == "mean" and known) else 1
        v = ips["p"]["F0"]
        rec["value"] = rat(v, den)
        col = np.asarray(est)[:, list(model.features).index("F0")]
        # the same individual parameters handed over in another key order (a container rebuilt by the caller): same estimates
        from leaspy.io.outputs.individual_parameters import IndividualParameters
        ips_r = IndividualParameters()
        ips_r.add_individual_parameters("p", {"F1": ips["p"]["F1"], "F0": ips["p"]["F0"]})
        with warnings.catch_warnings():
            warnings.simplefilter("ignore")
            est_r = model.estimate({"p": [50.0, 61.0, 99.5]}, ips_r)["p"]
        rec["repeated_at_every_age"] = bool(np.array_equal(col, np.full(3, np.float32(v)), equal_nan=True)) and np.asarray(est).shape == (3, 2) \
            and list(model.features) == ["F0", "F1"] and set(ips["p"]) == {"F0", "F1"} \
            and bool(np.array_equal(np.asarray(est), np.asarray(est_r), equal_nan=True))
    except Exception as e:  # noqa: BLE001
        rec["status"] = f"{type(e).__name__}: {str(e)[:120]}"
    return rec


def run_lme(c, rnd, reuse="fresh"):
    lme = {"ages": list(c["ages"]), "ys": list(c["ys"]), "b0": int(c["b0"]), "b1": int(c["b1"]), "c11": int(c["c11"]), "c12": int(c["c12"]),
           "c22": int(c["c22"]), "slope": bool(c["slope"])}
    rec = {"part": "lme", "hist": [[1, 1]], "ptype": "last", "lme": lme, "status": "ok", "reuse": reuse, "repeat_same": False, "value": rat(0, 1), "repeated_at_every_age": True,
           "re0": rat(float("nan"), 1), "re1": rat(float("nan"), 1), "trajectory_is_line": False, "matches_reference_library": True}
    try:
        n = len(lme["ages"])
        with warnings.catch_warnings():
            warnings.simplefilter("ignore")
            model = model_factory("lme", with_random_slope_age=lme["slope"])
            C = np.array([[lme["c11"], lme["c12"]], [lme["c12"], lme["c22"]]], dtype=float)
            # ages are normalised by the model: (age - ages_mean) / ages_std are the specification's integer ages
            AM, AS = 66.0, 2.0
            model.load_parameters({"ages_mean": AM, "ages_std": AS, "fe_params": np.array([lme["b0"], lme["b1"]], dtype=float),
                                   "cov_re": np.linalg.inv(C) if lme["slope"] else np.array([[1.0 / lme["c11"]]]),
                                   "cov_re_unscaled_inv": C if lme["slope"] else np.array([[float(lme["c11"])]]),
                                   "noise_std": 1.0, "bse_fe": np.zeros(2), "bse_re": np.zeros(3 if lme["slope"] else 1)})
            model.features = ["Y"]
            model.dimension = 1
            model._is_initialized = True
            rows = [{"ID": "q", "TIME": AM + AS * float(a), "Y": float(y)} for a, y in zip(lme["ages"], lme["ys"])]
            if (n + sum(int(a) for a in lme["ages"])) % 2 == 0:
                # a visit whose value is missing, kept in the data (drop_full_nan=False): it carries no information
                rows.append({"ID": "q", "TIME": AM + AS * 7.0, "Y": np.nan})
            rnd.shuffle(rows)
            data = Data.from_dataframe(pd.DataFrame(rows), drop_full_nan=False)
            if reuse == "after_estimates":
                other = pd.DataFrame({"ID": ["u", "u", "w", "w", "w"], "TIME": [AM - AS, AM + 2 * AS, AM, AM + AS, AM + 3 * AS], "Y": [1.0, -2.0, 0.5, 2.0, 2.5]})
                ips0 = model.personalize(Data.from_dataframe(other), "lme_personalize")
                model.estimate({"u": [AM, AM + AS], "w": [AM + 2 * AS]}, ips0)
                model.estimate({"w": [AM - AS, AM + 5 * AS]}, ips0)
            ips = model.personalize(data, "lme_personalize")
            ip = ips["q"]
            a = np.array(lme["ages"], dtype=float)
            r = np.array(lme["ys"], dtype=float) - (lme["b0"] + lme["b1"] * a)
            if lme["slope"]:
                det = (n + lme["c11"]) * (float((a * a).sum()) + lme["c22"]) - (float(a.sum()) + lme["c12"]) ** 2
                rec["re0"] = rat(ip["random_intercept"], det)
                rec["re1"] = rat(ip["random_slope_age"], det)
            else:
                rec["re0"] = rat(ip["random_intercept"], n + lme["c11"])
                rec["re1"] = {"nan": False, "num": 0, "den": 1, "close": True}
            ts = [-3.0, 0.0, 1.5, 4.0]
            est = np.asarray(model.estimate({"q": [AM + AS * t for t in ts]}, ips)["q"], dtype=float)[:, 0]
            b = np.array([float(ip["random_intercept"]), float(ip.get("random_slope_age", 0.0))])
            line = (lme["b0"] + b[0]) + (lme["b1"] + b[1]) * np.array(ts)
            rec["trajectory_is_line"] = bool(np.allclose(est, line, rtol=1e-5, atol=1e-5))
            # asked again: same trajectories, same conditional means
            est2 = np.asarray(model.estimate({"q": [AM + AS * t for t in ts]}, ips)["q"], dtype=float)[:, 0]
            ip2 = model.personalize(data, "lme_personalize")["q"]
            rec["repeat_same"] = bool(np.array_equal(est, est2)) and all(np.array_equal(np.asarray(ip[k_]), np.asarray(ip2[k_])) for k_ in ip)
    except Exception as e:  # noqa: BLE001
        rec["status"] = f"{type(e).__name__}: {str(e)[:120]}"
    return rec


def run_reference(seed, slope):
    """Fitted LME on a univariate cohort: personalised effects of the training individuals vs statsmodels' random_effects."""
    import statsmodels.api as sm
    from statsmodels.regression.mixed_linear_model import MixedLM
    rec = {"part": "lme_ref", "hist": [[1, 1]], "ptype": "last", "lme": NOLME, "status": "ok", "reuse": "fresh", "repeat_same": True, "value": rat(0, 1), "repeated_at_every_age": True,
           "re0": rat(0, 1), "re1": rat(0, 1), "trajectory_is_line": True, "matches_reference_library": False}
    try:
        rng = np.random.RandomState(seed)
        rows = []
        for i in range(12):
            b0, b1 = rng.randn() * 0.8, rng.randn() * 0.15
            for t in np.sort(60 + rng.rand(rng.randint(3, 7)) * 15):
                rows.append({"ID": f"s{i:02d}", "TIME": float(np.round(t, 3)), "Y": float(2 + b0 + (0.2 + b1) * (t - 67) + rng.randn() * 0.2)})
        df = pd.DataFrame(rows)
        with warnings.catch_warnings():
            warnings.simplefilter("ignore")
            # a cohort on which the reference library itself ends on the boundary (singular covariance of the random effects:
            # it cannot predict them either) is not a comparison point
            ages0 = df["TIME"].values
            an0 = (ages0 - ages0.mean()) / ages0.std()
            X0 = sm.add_constant(an0, prepend=True, has_constant="add")
            try:
                MixedLM(df["Y"].values, X0, df["ID"].values, X0 if slope else None).fit(method="lbfgs").random_effects
            except Exception as e:  # noqa: BLE001
                rec["matches_reference_library"] = True
                rec["degenerate"] = f"reference library: {type(e).__name__}: {str(e)[:80]}"
                return rec
            model = model_factory("lme", with_random_slope_age=slope)
            data = Data.from_dataframe(df)
            model.fit(data, "lme_fit")
            # trajectories are asked for before the personalization that is compared with the reference library
            ips0 = model.personalize(data, "lme_personalize")
            model.estimate({"s00": [60.0, 70.0], "s03": [65.0]}, ips0)
            ips = model.personalize(data, "lme_personalize")
            ages = df["TIME"].values
            an = (ages - ages.mean()) / ages.std()
            X = sm.add_constant(an, prepend=True, has_constant="add")
            ref = MixedLM(df["Y"].values, X, df["ID"].values, X if slope else None).fit(method="lbfgs")
            ok = True
            for sid, eff in ref.random_effects.items():
                got = ips[sid]
                vals = np.asarray(eff, dtype=float)
                ok &= abs(float(got["random_intercept"]) - vals[0]) <= 1e-4 * (1 + abs(vals[0]))
                if slope:
                    ok &= abs(float(got["random_slope_age"]) - vals[1]) <= 1e-4 * (1 + abs(vals[1]))
            rec["matches_reference_library"] = bool(ok)
    except Exception as e:  # noqa: BLE001
        rec["status"] = f"{type(e).__name__}: {str(e)[:120]}"
    return rec


def run(ctx):
    q = ctx.quick
    ctx.rule = ("TLC evaluates the four estimators of the constant model exactly on every history of 1-3 visits (1-4 in the thorough tier; all age orders, "
                "values in {1,2,3,NaN}) and the conditional means of the LME random effects exactly (closed 1x1 / 2x2 inverse) on "
                "integer cases (Benchmarks.tla: LastKnownExtendsLast, MeanBetween, Shrinks); every enumerated case is run through "
                "ConstantModel.personalize / estimate and, with parameters injected through load_parameters, through "
                "LMEModel.personalize / estimate, on a fresh model object or on one that was just used on another data set (columns "
                "swapped / other feature names; trajectories of other individuals), and asked twice; TLC compares the results, as numerators over the specification's denominators, "
                "with the specification (BenchmarksTrace.tla); fitted univariate cohorts with and without random slope are compared "
                "with statsmodels' random_effects on the training individuals. Distinct = distinct case.")
    ctx.assumptions = ["agreement with the reference mixed-model library within 1e-4 relative (it is the library named by the property)"]
    tmp = os.path.join(ctx.tmp, "bm")
    os.makedirs(tmp, exist_ok=True)
    res, cs = cases.enumerate_cases("MC_Benchmarks", "MC_Benchmarks.cfg" if q else "MC_Benchmarks_thorough.cfg", tmp, "bm")
    ctx.add_tlc("Benchmarks: all histories / LME cases (design + enumeration)", res)
    if res.violated:
        ctx.violation({"check": "design", "invariant": res.violated[0]}, f"Benchmarks.tla violates {res.violated}", replay=res.trace_text[:3000])
    rnd = random.Random(ctx.seed)
    rnd.shuffle(cs)
    const = [c for c in cs if str(c["part"]) == "constant"]
    lmes = [c for c in cs if str(c["part"]) == "lme"]
    if q:
        const, lmes = const[:600], lmes[:300]
    recs = []
    for c in const:
        hist = [(int(v["age"]), int(v["val"])) for v in c["hist"]]
        recs.append(run_constant(hist, str(c["ptype"]), rnd, str(c["reuse"])))
        ctx.case(key=("constant", tuple(hist), str(c["ptype"]), str(c["reuse"])))
    for c in lmes:
        recs.append(run_lme(c["lme"], rnd, str(c["reuse"])))
        ctx.case(key=("lme", repr(c["lme"]), str(c["reuse"])))
    for seed in ([1, 2] if q else list(range(1, 11))):
        for slope in (False, True):
            recs.append(run_reference(ctx.seed + seed, slope))
            ctx.case(key=("lme_ref", seed, slope))
    n_deg = sum(1 for r in recs if r.get("degenerate"))
    ctx.extra["reference_cohorts_skipped_as_degenerate"] = n_deg
    if n_deg > len([r for r in recs if r["part"] == "lme_ref"]) // 2:
        raise tlc.MachineryError("more than half of the reference cohorts are degenerate for the reference library")
    ok, idx, r2 = cases.validate_records("BenchmarksTrace", CFG_T, [{k: v for k, v in r.items() if k != "degenerate"} for r in recs], tmp, "conf")
    ctx.traces += len(recs)
    ctx.states += r2.distinct
    ctx.transitions += r2.generated
    ctx.log(f"{len(const)} constant-model histories, {len(lmes)} LME cases, reference-library cohorts -> {'all conform' if ok else 'MISMATCH'} ({r2.wall:.1f}s)")
    ctx.sample(recs[0])
    ctx.sample(recs[len(const) + 1])
    if not ok:
        bad = recs[idx] if idx is not None else None
        ctx.violation({"check": "conformance", "part": bad and bad["part"], "ptype": bad and bad["ptype"], "status": bad and bad["status"][:30]},
                      f"benchmark model differs from Benchmarks.tla on {bad}", replay=bad)
    import copy
    good = next(r for r in recs if r["part"] == "constant" and not r["value"]["nan"])
    bad = copy.deepcopy(good)
    bad["value"]["num"] += 1
    ok, idx, _ = cases.validate_records("BenchmarksTrace", CFG_T, [good, bad], tmp, "selftest")
    if ok or idx != 1:
        raise tlc.MachineryError("binding self-test failed")
    ctx.exhaustive = not q


def replay(ctx, path):
    import json
    print(json.dumps(json.load(open(path)), indent=1))
    run(ctx)
