"""C11 - seeded runs are reproducible and independent of logging and process history (Saem.tla logging, ModelLifecycle.tla)."""
import os
import random

import numpy as np
import torch

from .. import tlc, zoo
from ..drivers import saem

PER = [0, 1, 2, 3, 4, 6]


def log_configs(rnd, count):
    """Covering sample of the logging space of MC_Saem (AllLogs)."""
    out, seen = [], set()
    fixed = [dict(on=True, print=2), dict(on=True, print=1, path=True, dir="absent"), dict(on=True, save=2),
             dict(on=True, save=1, plot=2, path=True, dir="empty"), dict(on=True, patients=2),
             dict(on=True, patients=3, path=True, dir="absent"), dict(on=True, plot=2),
             dict(on=True, save=2, plot=3, path=True, dir="absent"),
             dict(on=True, print=3, path=True, dir="nonempty"), dict(on=True, print=3, save=3, path=True, dir="nonempty", overwrite=True),
             dict(on=True, path=True, dir="absent"), dict(on=True, overwrite=True),
             dict(on=True, save=2, print=3, path=True, dir="absent", relative=True)]
    for f in fixed:
        out.append(f)
        seen.add(tuple(sorted(f.items())))
    while len(out) < count:
        l = dict(on=True, print=rnd.choice(PER), save=rnd.choice(PER), plot=rnd.choice([0, 0, 0, 2, 4, 6]),
                 patients=rnd.choice([0, 0, 2, 3]), path=rnd.random() < 0.6)
        l["dir"] = rnd.choice(["absent", "empty", "nonempty"]) if l["path"] else "absent"
        l["overwrite"] = rnd.random() < 0.4
        if not (l["print"] or l["save"] or l["plot"] or l["patients"] or l["path"] or l["overwrite"]):
            continue
        key = tuple(sorted(l.items()))
        if key in seen:
            continue
        seen.add(key)
        out.append(l)
    return out[:count]


def fresh_interpreters(ctx):
    """A seeded fit / personalization / simulation gives the same numbers in fresh interpreters whatever their string-hash seed
    (the order of a set of identifiers is not an input of the computation)."""
    import json
    import subprocess
    import sys
    got = {}
    for hs in ("1", "3", "4"):
        env = dict(os.environ, PYTHONHASHSEED=hs)
        p = subprocess.run([sys.executable, "-W", "ignore", "-m", "harness.drivers.hashseed_probe"], capture_output=True, text=True, env=env,
                           cwd=os.path.dirname(os.path.dirname(os.path.dirname(os.path.abspath(__file__)))), timeout=900)
        line = next((l for l in p.stdout.splitlines() if l.startswith("DIGESTS ")), None)
        if line is None:
            raise tlc.MachineryError(f"hash-seed probe failed (exit {p.returncode}): {p.stderr[-400:]}")
        got[hs] = json.loads(line[8:])
        ctx.case(key=("fresh_interpreter", hs))
    diff = [k for k in got["1"] if any(got["1"][k] != got[h].get(k) for h in got)]
    ctx.log(f"fresh interpreters with string-hash seeds 1 / 3 / 4: seeded fit, three personalizations, two simulations -> {'identical' if not diff else 'DIFFER: ' + str(diff)}")
    if diff:
        ctx.violation({"check": "hash_seed", "what": diff[0]}, f"seeded {diff} differ between fresh interpreters with different string-hash seeds: {got}",
                      replay=got)


def burn_rngs(rnd):
    """Consume random numbers from the three generators (process history)."""
    for _ in range(rnd.randint(1, 50)):
        random.random()
    np.random.rand(rnd.randint(1, 50))
    torch.rand(rnd.randint(1, 50))
    torch.randn(rnd.randint(1, 7))


def run(ctx):
    q = ctx.quick
    ctx.rule = ("TLC explores every logging configuration (print/save/plot/patient periodicities in {none,1,2,3,4,6}, path "
                "given or not, folder absent/empty/non-empty, overwrite) x n_iter <= 6 of Saem.tla (LogExactlyWhenDue, "
                "LogReadOnly, AcceptedCompletes, Termination); a covering sample of configurations is run as real fits: "
                "the outputs emitted at every iteration, the absence of any mutation of state / RNG streams by the logging "
                "step, completion, and bit-identity of the fitted parameters with the run without logging are validated by "
                "TLC against SaemTrace.tla; history scenarios (RNG consumption, other fits, earlier calls) precede repeated "
                "seeded fits / personalizations / simulations which must be bit-identical. Distinct = distinct (kind, logging configuration) or scenario.")
    ctx.assumptions = ["bit-identity is judged on model.parameters / individual parameters / simulated tables of one process"]
    res = tlc.run("MC_Saem", "MC_Saem_logging.cfg", workers=16, timeout=3000)
    tlc.require_ok(res, "MC_Saem_logging")
    ctx.add_tlc("Saem logging: all logging configurations x n_iter 1..6", res)
    ctx.log(f"TLC MC_Saem_logging: {res.distinct} states, violated={res.violated} ({res.wall:.1f}s)")
    if res.violated:
        ctx.violation({"check": "design", "invariant": res.violated[0]}, f"Saem.tla violates {res.violated}", replay=res.trace_text[:4000])
    fresh_interpreters(ctx)
    rnd = random.Random(ctx.seed)
    kinds = ["logistic_diag_src1", "joint_src1"] if q else ["logistic_diag_src1", "joint_src1", "linear_scalar_src1"]
    n_cfg = 24 if q else 150
    first = None
    for kind in kinds:
        n = 6
        base_cfg = dict(n=n, burn=("frac", 5), pw=(4, 5), rnd=True)
        seed = ctx.seed + 5
        w = os.path.join(ctx.tmp, f"base_{kind}")
        os.makedirs(w, exist_ok=True)
        evs0, info0 = saem.run_config(kind, base_cfg, seed=seed, workdir=w, want_params=True)
        base = info0["params"]
        if base is None:
            raise tlc.MachineryError(f"baseline fit of {kind} failed: {info0['exception']}")
        events = list(evs0)
        vars_, params = info0["vars"], info0["params_names"]
        # repeat after consuming random numbers and fitting something else: same seed => same parameters
        burn_rngs(rnd)
        other, odata, _ = zoo.make("linear_diag_src1", seed=3)
        other.fit(odata, "mcmc_saem", n_iter=3, seed=11, progress_bar=False)
        burn_rngs(rnd)
        ca = info0.get("cohort_attempt", 0)
        evs1, _ = saem.run_config(kind, base_cfg, seed=seed, workdir=w, compare_to=base, cohort_attempt=ca)
        events += evs1
        ctx.case(key=(kind, "repeat-after-history"))
        # ... and after somebody switched torch's default dtype in the same interpreter
        evs1b, _ = saem.run_config(kind, dict(base_cfg, dtype64=True), seed=seed, workdir=w, compare_to=base, cohort_attempt=ca)
        events += evs1b
        ctx.case(key=(kind, "repeat-after-dtype-switch"))
        # the same algorithm object run twice (annealing on), and settings that travelled through a JSON file, for seeds 0 and 5
        for sd in ((0, 5) if (not q or kind == kinds[0]) else ()):
            acfg = dict(base_cfg, ann=dict(spec=("count", 4), p=3, t0=(5, 1)))
            w2 = os.path.join(ctx.tmp, f"reuse_{kind}_{sd}")
            os.makedirs(w2, exist_ok=True)
            evs_a, info_a = saem.run_config(kind, acfg, seed=sd, workdir=w2, want_params=True)
            events += evs_a
            burn_rngs(rnd)
            evs_b, _ = saem.run_config(kind, acfg, seed=sd, workdir=w2, compare_to=info_a["params"], reuse_algo=True, cohort_attempt=info_a.get("cohort_attempt", 0))
            events += evs_b
            burn_rngs(rnd)
            evs_c, _ = saem.run_config(kind, acfg, seed=sd, workdir=w2, compare_to=info_a["params"], via_file=True, cohort_attempt=info_a.get("cohort_attempt", 0))
            events += evs_c
            ctx.case(key=(kind, "reuse+file", sd))
        # (quick tier: the second kind - a joint model, whose outputs include the survival shifts - gets a third of the configurations)
        for i, l in enumerate(log_configs(rnd, n_cfg if (not q or kind == kinds[0]) else 8)):
            c = dict(base_cfg, log=l)
            w = os.path.join(ctx.tmp, f"log_{kind}_{i}")
            os.makedirs(w, exist_ok=True)
            evs, info = saem.run_config(kind, c, seed=seed, workdir=w, compare_to=base, cohort_attempt=ca)
            events += evs
            ctx.case(key=(kind,) + tuple(sorted(l.items())))
        ok, k, res = saem.validate(events, vars_, params, os.path.join(ctx.tmp, "tr"), f"C11_{kind}")
        ctx.traces += n_cfg + 2
        ctx.states += res.distinct
        ctx.transitions += res.generated
        ctx.log(f"{kind}: logging configurations + repeat, {len(events)} events -> {'accepted' if ok else f'REJECTED at event {k}'} ({res.wall:.1f}s)")
        if ok and first is None:
            first = (kind, events, vars_, params)
        if not ok:
            e = events[k]
            start = max(i for i in range(k + 1) if events[i]["op"] == "RunStart")
            r = events[start]
            sig = {"check": "trace", "event_op": e["op"], "outcome": e.get("outcome", "-"), "log_path": r["log_path"],
                   "print": r["log_print"] > 0, "save": r["log_save"] > 0}
            ctx.violation(sig, f"fit of {kind} with logging is not a behaviour of Saem.tla: event {e} of run {r}",
                          replay={"run": r, "event": e})
    if first:
        import copy
        kind, events, vars_, params = first
        ctx.sample({"run": events[0], "logged": [e for e in events if e["op"] == "Logged"][:6]})
        idx = next((i for i, e in enumerate(events) if e["op"] == "Logged" and e["emitted"]), None)
        if idx is None:
            raise tlc.MachineryError("self-test: no emitting iteration recorded")
        bad = copy.deepcopy(events)
        bad[idx]["emitted"] = bad[idx]["emitted"][1:]
        ok, k, res = saem.validate(bad, vars_, params, os.path.join(ctx.tmp, "tr"), "C11_selftest")
        if ok or k != idx:
            raise tlc.MachineryError(f"binding self-test failed: dropped output accepted={ok} at {k} (expected {idx})")
        ctx.log(f"self-test: dropped output at event {idx} -> rejected (as required)")
    try:
        from ..drivers import lifecycle
    except ImportError:
        lifecycle = None
    if lifecycle is not None:
        lifecycle.run_history_scenarios(ctx)
    ctx.exhaustive = False


def replay(ctx, path):
    import json
    print(json.dumps(json.load(open(path)), indent=1))
    run(ctx)
