"""C07 - individuals are conditionally independent and order-equivariant (Cohort.tla, Sampler.tla DecisionLocal)."""
import os
import random

from .. import cases, tlc
from ..drivers import cohort as co

CFG_T = """SPECIFICATION TSpec
CONSTANTS
  Ids = {"8", "9", "10", "11"}
  DataVals = {"d0", "d1", "dbad"}
  MaxN = 4
  WorkerCounts = {2, 3}
INVARIANT Conforms
"""
CFG_E = """SPECIFICATION Spec
CONSTANTS
  Ids = {"8", "9", "10"}
  DataVals = {"d0", "d1", "dbad"}
  MaxN = 3
  WorkerCounts = {2, 3}
"""


def run(ctx):
    q = ctx.quick
    ctx.rule = ("TLC checks OwnOnly, OwnOnlyWithDraws, Equivariant and OutputOrderFollowsInput of Cohort.tla for every cohort of 2-3 "
                "individuals (4 identifiers whose string order differs from their numeric order, 3 data variants incl. one with a "
                "non-finite attachment) and every scenario (modify another individual, every permutation, every single individual, "
                "2-3 workers); scenarios enumerated by TLC are executed on a real fitted model: per-individual attachment / "
                "regularity terms at fixed latent values, population totals, seeded mean_posterior / mode_posterior chains, scipy_minimize "
                "personalization (n_jobs 1-3); the modify scenarios also on a precisely observed cohort (noise 0.01, 40 visits: "
                "prohibitive proposals) and on the joint model (an individual whose event precedes the population time-shift); TLC checks the recorded relations (CohortTrace.tla): bit-identical outputs of the "
                "untouched individuals when another one is modified, per-identifier equality under permutation / alone / other "
                "worker counts, totals = sums, outputs keyed by the input identifiers in input order. Plus Sampler.tla "
                "DecisionLocal (C03 driver). Distinct = distinct (cohort, scenario).")
    ctx.assumptions = ["optimisation results under permutation / alone / other worker counts are compared with tolerance "
                       "(tau 0.1, others 0.05): starting points are position-indexed draws and worker processes differ in the last float bits",
                       "terms alone vs in a batch within 1e-5 relative"]
    tmp = os.path.join(ctx.tmp, "coh")
    os.makedirs(tmp, exist_ok=True)
    res = tlc.run("Cohort", "MC_Cohort.cfg", workers=16)
    tlc.require_ok(res, "MC_Cohort")
    ctx.add_tlc("Cohort: all cohorts x scenarios (design)", res)
    ctx.log(f"TLC MC_Cohort: {res.distinct} scenarios, violated={res.violated} ({res.wall:.1f}s)")
    if res.violated:
        ctx.violation({"check": "design", "invariant": res.violated[0]}, f"Cohort.tla violates {res.violated}", replay=res.trace_text[:3000])
    ecfg = os.path.join(tmp, "enum.cfg")
    with open(ecfg, "w") as f:
        f.write(CFG_E)
    _, cs = cases.enumerate_cases("Cohort", ecfg, tmp, "coh")
    rnd = random.Random(ctx.seed)
    rnd.shuffle(cs)
    # stratified choice: every scenario type, 3-individual cohorts preferred, unsorted identifier orders
    by = {"modify": [], "permute": [], "single": [], "workers": []}
    for c in cs:
        by[c["scen"][0]].append(c)
    quota = {"modify": 6, "permute": 4, "single": 3, "workers": 2} if q else {"modify": 40, "permute": 30, "single": 15, "workers": 8}
    chosen = []
    for kind, lst in by.items():
        lst.sort(key=lambda c: -len(c["cohort"]))
        pick = lst[: max(quota[kind] * 6, 1)]
        rnd.shuffle(pick)
        if kind == "modify":
            bad = [c for c in pick if c["scen"][2] == "dbad"][: max(2, quota[kind] // 3)]
            rest = [c for c in pick if c["scen"][2] != "dbad"]
            pick = bad + rest
        if kind == "workers":
            # both worker counts, on 3-individual cohorts
            pick = [next(c for c in lst if len(c["cohort"]) == 3 and c["scen"][1] == n and all(r["data"] == "d0" for r in c["cohort"]))
                    for n in (2, 3)] + pick
        chosen += pick[: quota[kind]]
    kinds = ["logistic_diag_src1"] if q else ["logistic_diag_src1", "linear_scalar_src1"]
    recs = []
    # + a precisely observed cohort (tiny noise, 40 visits each: most proposals are prohibitive for everybody) and the joint model
    #   (longitudinal + event data; "d1" = an individual whose event is observed before the population time-shift, for whom the
    #   prior mode is outside the support of the likelihood): "modify" scenarios (all scenario types for the joint model in the
    #   thorough tier)
    runs = [(kind, False, chosen) for kind in kinds]
    mods = [c for c in chosen if c["scen"][0] == "modify"]
    runs.append(("logistic_diag_src1", True, mods))
    runs.append(("joint_src1", False, mods if q else chosen))
    for kind, precise, todo in runs:
        runner = co.Runner(kind, tmp, ctx.seed + 1, precise=precise)
        for c in todo:
            ids = [r["id"] for r in c["cohort"]]
            data = [r["data"] for r in c["cohort"]]
            sc = c["scen"]
            kw = {}
            if sc[0] == "modify":
                kw = dict(j=sc[1], newdata=sc[2])
            elif sc[0] == "permute":
                p = sc[1]
                kw = dict(perm=[p[i] for i in sorted(p)] if isinstance(p, dict) else list(p))
            else:
                kw = dict(j=sc[1])
            recs.append(co.run_scenario(runner, ids, data, sc[0], **kw))
            recs[-1]["model"] = kind + ("/precise" if precise else "")
            ctx.case(key=(kind, precise, tuple(ids), tuple(data), repr(sc)))
    # an algorithm object that already served another cohort: nothing learnt there is carried over to the next individuals
    okr, detail = co.reused_algorithm_independent(co.Runner(kinds[0], tmp, ctx.seed + 1))
    ctx.case(key=("reused_algorithm", kinds[0]))
    ctx.log(f"re-used personalization algorithm object on {kinds[0]}: results after cohort X / after cohort Y / fresh -> {'identical' if okr else 'DIFFER'}")
    if not okr:
        ctx.violation({"check": "reused_algorithm", "kind": kinds[0]},
                      f"personalized parameters of a cohort depend on the cohort the algorithm object served before: {detail}", replay=detail)
    ok, idx, r2 = cases.validate_records("CohortTrace", CFG_T, recs, tmp, "conf")
    ctx.traces += len(recs)
    ctx.states += r2.distinct
    ctx.transitions += r2.generated
    ctx.log(f"{len(recs)} cohort scenarios executed on {len(runs)} model(s) -> {'all conform' if ok else 'MISMATCH'} ({r2.wall:.1f}s)")
    ctx.sample(recs[0])
    if not ok:
        for r in recs:
            failed = [k for k in ("terms_same", "totals_are_sums", "chain_same", "optim_same", "totals_same") if not r[k]]
            if r["status"] != "ok" or failed or r["output_ids"] != (r["ids"] if r["scen"] != "permute" else [r["ids"][p - 1] for p in r["perm"]]) and r["scen"] != "single":
                ctx.violation({"check": "scenario", "scen": r["scen"], "failed": (failed or [r["status"][:40] if r["status"] != "ok" else "output_ids"])[0]},
                              f"cohort scenario {r['scen']} ({r['model']}) on {r['ids']}/{r['data']}: {failed or r['status']} (outputs {r['output_ids']})", replay=r)
    # sampler-level locality (C03 driver, individual kind): one run with the individual sampler under directed draws
    from ..drivers import sampler as smp
    smp.run_traces(ctx, [("logistic_diag_src1", "Gibbs", False, "mean_posterior", False), ("mixture_2", "Gibbs", False, None, False)],
                   n_iter=3, seeds=[ctx.seed + 5], selftest=False)
    import copy
    good = next(r for r in recs if r["status"] == "ok")
    bad = copy.deepcopy(good)
    bad["output_ids"] = list(reversed(bad["output_ids"])) if len(bad["output_ids"]) > 1 else ["zz"]
    ok, idx, _ = cases.validate_records("CohortTrace", CFG_T, [good, bad], tmp, "selftest")
    if ok or idx != 1:
        raise tlc.MachineryError("binding self-test failed: outputs in the wrong order accepted")
    ctx.log("self-test: outputs keyed in the wrong order rejected (as required)")
    ctx.exhaustive = False


def replay(ctx, path):
    import json
    print(json.dumps(json.load(open(path)), indent=1))
    run(ctx)
