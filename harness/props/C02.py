"""C02 - a rejected proposal leaves no trace in the state (StateCache.tla, revert-centred)."""
from ..drivers import statecache as sc
from .. import zoo


def run(ctx):
    ctx.rule = ("TLC explores every history of assignments / reads / full and per-individual reverts (all masks, "
                "non-finite proposal values inf and nan included) up to MaxOps on toy graphs (ForkFresh, ForkRestores, "
                "RevertFullExact, PartialRevertExact, Fresh); simulated behaviours containing a revert are replayed "
                "into real State objects; revert events of real fits / random histories carry a bit-exactness "
                "oracle (old rows where reverted, proposed rows elsewhere) and are validated by StateCacheTrace.tla. "
                "Distinct = different (operation, arguments, abstract state) sequence.")
    ctx.assumptions = ["documented precondition of partial revert is an enabling condition (PartialOK)"]
    q = ctx.quick
    plan = [
        ("G1", "rev", dict(objs=(1,), modes=("none", "ref"), max_ops=8 if q else 10, nonfin=("inf", "nan")),
         ["Assign", "Put", "Read", "RevertFull", "RevertPartial", "SetMode"]),
        ("G2", "rev", dict(objs=(1,), modes=("none", "ref"), max_ops=6 if q else 7, nonfin=("inf",)), False),
        ("G4", "rev", dict(objs=(1,), modes=("none", "ref"), max_ops=5 if q else 7, nonfin=("inf",)), False),
        ("G2", "nan2", dict(objs=(1,), modes=("ref",), max_ops=5 if q else 6, nonfin=("inf", "nan")), False),
    ]
    if not q:
        plan.append(("G3", "rev", dict(objs=(1,), modes=("none", "ref", "copy"), max_ops=7, nonfin=("inf",)), False))
        plan.append(("G2", "clone2", dict(objs=(1, 2), max_ops=5, nonfin=("inf",)), False))
    sc.run_toy(ctx, "C02", plan, sim_traces=400 if q else 5000, sim_depth=14 if q else 20)
    cfgs = ["logistic_scalar_src1", "shared_speed_src1", "joint_nosrc"] if q else list(zoo.CONFIGS)
    jobs = [(c, ctx.seed + 11) for c in cfgs]
    sc.run_real(ctx, "C02", jobs, n_ops=80 if q else 300)
    # sampler level: rejected blocks / individuals are bit-equal to the snapshot, accepted ones hold the proposal, also
    # when the proposal evaluates to something non-finite (SamplerTrace.tla: post_ok, reads_ok)
    from ..drivers import sampler as smp
    plan = [("logistic_diag_src1", "Gibbs", False, None, True), ("linear_scalar_src1", "Metropolis-Hastings", True, None, True)]
    if not q:
        plan += [("shared_speed_src1", "FastGibbs", False, "mode_posterior", True), ("joint_src1", "Gibbs", True, None, False),
                 ("logistic_univariate", "Gibbs", False, None, True)]
    smp.run_traces(ctx, plan, n_iter=3 if q else 10, seeds=[ctx.seed + 21], selftest=False)
    ctx.exhaustive = False


def replay(ctx, path):
    import json
    print(json.dumps(json.load(open(path)), indent=1))
    run(ctx)
