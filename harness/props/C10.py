"""C10 - re-centring is a pure gauge change; space shifts are orthogonal to progression (Trajectory.tla)."""
import os
import random

from .. import cases, tlc
from ..drivers import trajectory as tj

from .C09 import CFG_T


def run(ctx):
    q = ctx.quick
    ctx.level = "other"
    ctx.rule = ("TLC checks ZeroMean and GaugeInvariant of the re-centring action of Trajectory.tla on every triple of integer "
                "log-accelerations (exact arithmetic scaled by the cohort size): the combinations log v0 + xi_i and xi_i + n_log_nu "
                "that every trajectory / event term depends on are unchanged; every enumerated triple is turned into a real model "
                "state (logistic / linear / shared-speed / joint, with and without sources, seeded population values, optionally one "
                "extreme progressor xi = 4.8, a Weibull scale with n_log_nu = -7.2, or a reverted proposal on the velocities), the "
                "real re-centring (compute_sufficient_statistics) is applied and TLC checks the verdicts (TrajectoryTrace.tla): "
                "(joint models also with two competing kinds of event) trajectories, per-individual attachments and event likelihoods unchanged within 1e-5 (1 + |value|), the hazard and log-survival of the event family "
                "at every individual's event time (the ingredients of the event part of a joint trajectory) unchanged within 1e-4 relative, mean of the "
                "log-accelerations <= 1e-6, every mixing-matrix row orthogonal in the metric to the progression direction "
                "(cosine in the metric <= 1e-4; metric and direction are the terms of Trajectory.tla part D evaluated at the state's g, v0, "
                "deltas - not the model's own metric variable), also with velocities near the single-precision floor and with features far "
                "apart at the reference time; the shared-speed model (no re-centring) is checked for orthogonality only. Distinct = distinct (configuration, triple, extreme).")
    ctx.assumptions = ["numeric orthogonality / invariance are judged in float64 on float32 states with the stated tolerances"]
    tmp = os.path.join(ctx.tmp, "gauge")
    os.makedirs(tmp, exist_ok=True)
    res, cs = cases.enumerate_cases("MC_Trajectory", "MC_Trajectory_gauge.cfg", tmp, "gauge")
    ctx.add_tlc("Trajectory gauge algebra (design)", res)
    if res.violated:
        ctx.violation({"check": "design", "invariant": res.violated[0]}, f"Trajectory.tla violates {res.violated}", replay=res.trace_text[:3000])
    rnd = random.Random(ctx.seed)
    configs = ["logistic_diag_src1", "linear_scalar_src1", "joint_src1", "joint_nosrc", "joint_src1_ev2"] if q else \
        ["logistic_diag_src1", "logistic_scalar_src1", "logistic_diag_nosrc", "linear_scalar_src1", "linear_diag_src1", "joint_src1",
         "joint_nosrc", "joint_univariate", "logistic_binary", "joint_src1_ev2", "joint_nosrc_ev2"]
    # the terms of the squared metric and of the direction of progression, per family (stated in Trajectory.tla)
    metric_terms = {str(c["kind"]): (tj.totuple(c["msq"]), tj.totuple(c["dir"])) for c in cs}
    triples = sorted({tuple(c["xis"]) for c in cs})
    rnd.shuffle(triples)
    recs = []
    # the shared-speed model has no re-centring step: only the orthogonality of its mixing matrix is checked
    for cfg in configs + ["shared_speed_src1"]:
        recenter = not cfg.startswith("shared_speed")
        extremes = ([None, "xi", "reverted"] if recenter else [None]) + ["tiny_v0", "staggered"] + (["nu"] if cfg.startswith("joint") else [])
        n_each = (6 if q else 25) if recenter else (4 if q else 15)
        for ext in extremes:
            for xs in triples[:n_each]:
                if sum(xs) == 0 and ext in ("xi", "nu"):
                    continue
                fam = "shared" if cfg.startswith("shared_speed") else ("linear" if cfg.startswith("linear") else "logistic")
                recs.append(tj.run_gauge_case(cfg, list(xs), rnd, ext, recenter=recenter, family=fam, metric_terms=metric_terms[fam]))
                ctx.case(key=(cfg, xs, ext))
            rnd.shuffle(triples)
    ok, idx, r2 = cases.validate_records("TrajectoryTrace", CFG_T, recs, tmp, "gauge_conf")
    ctx.traces += len(recs)
    ctx.states += r2.distinct
    ctx.transitions += r2.generated
    ctx.log(f"{len(recs)} re-centring scenarios on {len(configs)} configurations -> {'all conform' if ok else 'MISMATCH'} ({r2.wall:.1f}s)")
    ctx.sample(recs[0])
    if not ok:
        for r in recs:
            failed = [k for k in ("traj_same", "attach_same", "event_same", "zero_mean", "orthogonal") if not r[k]]
            if r["status"] != "ok" or failed:
                ctx.violation({"check": "gauge", "config": r["config"], "failed": (failed or [r["status"][:40]])[0], "extreme": r["extreme"]},
                              f"re-centring on {r['config']} (xi pattern {r['xis']}, {r['extreme']}): {failed or r['status']}; gaps {r.get('gaps')}", replay=r)
    # the function every mixing matrix is built from, on its whole interface (dimension x metric kind x stripped column)
    res_b, cs_b = cases.enumerate_cases("OrthoBasis", "MC_OrthoBasis.cfg", tmp, "basis")
    ctx.add_tlc("OrthoBasis case table", res_b)
    recs_b = []
    for c in cs_b:
        for rep in range(2 if q else 10):
            recs_b.append(tj.run_basis_case(int(c["n"]), str(c["metric"]), int(c["strip"]), rnd))
        ctx.case(key=("basis", int(c["n"]), str(c["metric"]), int(c["strip"])))
    cfg_b = 'SPECIFICATION TSpec\nCONSTANTS\n  Dims = {}\n  MetricKinds = {}\nINVARIANT Conforms\nINVARIANT Covered\n'
    okb, idxb, rb = cases.validate_records("OrthoBasisTrace", cfg_b, recs_b, tmp, "basis_conf", env={"EXPECT_COUNT": str(len(cs_b))})
    ctx.traces += len(recs_b)
    ctx.log(f"{len(recs_b)} calls of compute_orthonormal_basis over {len(cs_b)} interface cases -> {'all conform' if okb else 'MISMATCH'}")
    if not okb:
        bad = recs_b[idxb] if idxb is not None else None
        ctx.violation({"check": "basis", "metric": bad and bad["metric"], "strip_is_zero": bad and bad["strip"] == 0},
                      f"compute_orthonormal_basis breaks its contract on {bad}", replay=bad)
    import copy
    good = next(r for r in recs if r["status"] == "ok")
    bad = copy.deepcopy(good)
    bad["orthogonal"] = False
    ok, idx, _ = cases.validate_records("TrajectoryTrace", CFG_T, [good, bad], tmp, "selftest")
    if ok or idx != 1:
        raise tlc.MachineryError("binding self-test failed")
    ctx.exhaustive = False


def replay(ctx, path):
    import json
    print(json.dumps(json.load(open(path)), indent=1))
    run(ctx)
