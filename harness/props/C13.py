"""C13 - estimate, personalize and simulate leave the model and caller inputs untouched (ModelLifecycle.tla)."""
from ..drivers import lifecycle, settings


def run(ctx):
    q = ctx.quick
    ctx.rule = ("TLC explores every history of up to 5 (6) API calls fit / estimate / personalize (scipy_minimize, "
                "mean_posterior, mode_posterior) / simulate / save / load / RNG consumption over 2 data sets and 2 seeds "
                "(ResultDependsOnlyOn, ModelUntouched, NothingLeftBehind, CallerInputsUntouched, PopAtMode, SeededRepeatable); "
                "TLC-simulated histories are replayed on real model objects: after every call the projected model state "
                "(training data present?, individual latent values present?, population variables at prior modes, parameter "
                "and population hashes, caller-owned table / settings / dict unchanged) must be the specification's, and "
                "results carrying the same term <<call, params, inputs, seed>> must be bit-identical across histories. "
                "Settings objects (Settings.tla): TLC checks Isolation, ReadOnlyOps, RoundTrip, FreshIsDefault, NestedMergeKeepsRest "
                "on every history of 3 operations over 2 objects (construction with nested overrides, caller-side mutation, save, "
                "hand-written files, load, algorithm creation); simulated histories are replayed on real AlgorithmSettings objects "
                "comparing every object, the file, the algorithm's own copy and the shipped defaults after each operation. "
                "Distinct = distinct call history.")
    ctx.assumptions = ["a re-fit is modelled as built: it continues from the latent values held in the model state",
                       "a re-fit on another cohort while latents of a different cohort are held is outside the domain"]
    lifecycle.run_design(ctx, max_calls=5 if q else 6)
    kinds = ["logistic_diag_src1"] if q else ["logistic_diag_src1", "linear_scalar_src1", "joint_src1"]
    lifecycle.run_replay(ctx, "C13", kinds, num=36 if q else 250, depth=7 if q else 8, seeds_set="{0}" if q else "{0, 1}")
    # settings objects: construction / merge / mutation / save / load / algorithm creation (Settings.tla), spec -> code replay
    settings.run(ctx, 60 if q else 600, 10)
    ctx.exhaustive = False


def replay(ctx, path):
    import json
    print(json.dumps(json.load(open(path)), indent=1))
    run(ctx)
