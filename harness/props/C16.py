"""C16 - individual-parameter containers convert losslessly (IndParams.tla)."""
import os
import random
import tempfile
import warnings

import numpy as np

import leaspy.models  # noqa: F401
from leaspy.exceptions import LeaspyIndividualParamsInputError
from leaspy.io.outputs import IndividualParameters

from .. import cases, tlc

CFG_T = """SPECIFICATION TSpec
CONSTANTS
  IdSeqs = {}
  Names = {"tau", "my_p", "sources"}
  Shapes = {"scalar", "len1", "len2", "len12"}
  Paths = {"df", "pt", "csv", "json", "json_sorted"}
  MaxParams = 3
  ScalarOK = FALSE
  UnderscoreOK = FALSE
INVARIANT Conforms
INVARIANT AddRules
INVARIANT Covered
"""
SIZE = {"scalar": 0, "len1": 1, "len2": 2, "len12": 12}


def value(rnd, shape):
    if shape == "scalar":
        return rnd.choice([rnd.uniform(-3, 90), float(rnd.randint(-5, 90)), rnd.randint(0, 80)])
    return [rnd.uniform(-3, 90) for _ in range(SIZE[shape])]


def shape_of(v):
    return "scalar" if not isinstance(v, list) else {1: "len1", 2: "len2"}.get(len(v), f"len{len(v)}")


def build(ids, decls, rnd):
    ip = IndividualParameters()
    vals = {}
    for i in ids:
        d = {dc["name"]: value(rnd, dc["shape"]) for dc in decls}
        vals[i] = d
        ip.add_individual_parameters(i, d)
    return ip, vals


def add_rules(ids, decls, rnd, ip=None):
    """Additions that must be refused / accepted (C16 second sentence); on a fresh container or on a given one."""
    if ip is None:
        ip, _ = build(ids, decls, rnd)
    else:
        ids = list(ip._indices)
        decls = [{"name": n, "shape": shape_of(v)} for n, v in ip._individual_parameters[ids[0]].items()]
    n0 = len(ip._indices)
    good = {dc["name"]: value(rnd, dc["shape"]) for dc in decls}
    first = decls[0]
    wrong_shape = dict(good)
    wrong_shape[first["name"]] = [1.0, 2.0, 3.0] if first["shape"] != "scalar" else [1.0]
    bads = [(ids[0], good), (ids[-1], good), (17, good), (None, good), ("new1", "not-a-dict"), ("new2", dict(good, **{first["name"]: "text"})),
            ("new3", dict(good, **{first["name"]: None})), ("new4", wrong_shape), ("new5", {}),
            ("new6", dict(good, extra=1.0)), ("new7", dict(good, **{first["name"]: {"a": 1}}))]
    ok = True
    for idx, d in bads:
        try:
            ip.add_individual_parameters(idx, d)
            ok = False
        except LeaspyIndividualParamsInputError:
            pass
        except Exception:
            ok = False
    try:
        ip.add_individual_parameters("fresh_id", {k: (np.array(v) if isinstance(v, list) else v) for k, v in good.items()})
        ok = ok and ip._indices[-1] == "fresh_id" and len(ip._indices) == n0 + 1 and len(ip._individual_parameters) == n0 + 1
    except Exception:
        ok = False
    return ok


def run_case(ids, decls, path, rnd, tmp):
    rec = {"ids": list(ids), "decls": decls, "path": path, "out": [], "ids_out": [], "values_ok": False, "adds_after_ok": False, "chain_ok": False}
    with warnings.catch_warnings():
        warnings.simplefilter("ignore")
        rec["adds_ok"] = bool(add_rules(ids, decls, rnd))
        ip, vals = build(ids, decls, rnd)
        try:
            if path == "df":
                out = IndividualParameters.from_dataframe(ip.to_dataframe())
            elif path == "pt":
                out = IndividualParameters.from_pytorch(*ip.to_pytorch())
            else:
                f = os.path.join(tmp, f"ip_{rnd.random()}.{'json' if path.startswith('json') else path}")
                # the path has a past: another container (same identifiers, other values) was saved to and loaded from it before
                decoy, _ = build(ids, decls, rnd)
                decoy.save(f, **({"sort_keys": True} if path == "json_sorted" else {}))
                IndividualParameters.load(f)
                ip.save(f, **({"sort_keys": True} if path == "json_sorted" else {}))
                out = IndividualParameters.load(f)
                os.remove(f)
            rec["status"] = "ok"
        except Exception as e:  # noqa: BLE001
            rec["status"] = type(e).__name__
            return rec
    rec["ids_out"] = [i if isinstance(i, str) else f"<{type(i).__name__}>{i}" for i in out._indices]
    first = out._individual_parameters[out._indices[0]] if out._indices else {}
    rec["out"] = [{"name": n, "shape": shape_of(v)} for n, v in first.items()]
    ok = set(out._indices) == set(ids)
    if ok:
        ren = {"my": "my_p"}
        for i in ids:
            got = out._individual_parameters[i]
            for n, v in got.items():
                src = vals[i].get(n, vals[i].get(ren.get(n, n)))
                a = np.atleast_1d(np.asarray(v, dtype=float))
                b = np.atleast_1d(np.asarray(src, dtype=float))
                tol = 1e-6 * (1 + np.abs(b)) if path == "pt" else (1e-12 * (1 + np.abs(b)) if path == "csv" else 0.0)
                ok = ok and a.shape == b.shape and bool(np.all(np.abs(a - b) <= tol))
            ok = ok and shape_of(got[next(iter(got))]) is not None
            # shapes consistent over individuals
            ok = ok and [shape_of(v) for v in got.values()] == [d["shape"] for d in rec["out"]]
    rec["values_ok"] = bool(ok)
    # chain: the converted container goes on to the tensor form - identifiers in order, every row that of its identifier
    chain = False
    try:
        with warnings.catch_warnings():
            warnings.simplefilter("ignore")
            ids2, tens = out.to_pytorch()
        chain = list(ids2) == list(ids)
        ren = {"my": "my_p"}
        for n, t in tens.items():
            for r, i in enumerate(ids2):
                src = vals[i].get(n, vals[i].get(ren.get(n, n)))
                a = np.atleast_1d(np.asarray(t[r], dtype=float)).reshape(-1)
                b = np.atleast_1d(np.asarray(src, dtype=float)).reshape(-1)
                chain = chain and a.shape == b.shape and bool(np.all(np.abs(a - b) <= 1e-6 * (1 + np.abs(b))))
    except Exception:  # noqa: BLE001
        chain = False
    rec["chain_ok"] = bool(chain)
    with warnings.catch_warnings():
        warnings.simplefilter("ignore")
        rec["adds_after_ok"] = bool(add_rules(None, None, rnd, ip=out)) if out._indices else False
    return rec


def run(ctx):
    q = ctx.quick
    ctx.rule = ("TLC enumerates every container (5 identifier sequences incl. all-numeric-looking ids in non-canonical form, 1-2 (1-3 in the thorough tier) parameters out of 3 names "
                "x 4 shapes incl. 12 components) x 5 conversion paths (table, tensor, csv, json, json with sorted keys) of IndParams.tla and checks Lossless on the intended design and "
                "LosslessExceptNamed on the as-built one; every case is built as a real IndividualParameters with seeded values, "
                "converted there and back, and TLC compares status, names, shapes, identifiers and value equality with "
                "Expected (IndParamsTrace.tla), checks the addition rules (11 refusals, 1 acceptance per case, on the built container and again on the converted one) and that the "
                "records cover the space. Distinct = distinct (ids, declarations, path).")
    ctx.assumptions = ["values equal exactly through table / json, to 1e-12 relative through csv text (pandas fast float parser), to 1e-6 relative through float32 tensors"]
    tmp = os.path.join(ctx.tmp, "ipar")
    os.makedirs(tmp, exist_ok=True)
    for cfg in ("MC_IndParams_intended.cfg",):
        res = tlc.run("MC_IndParams", cfg, workers=8)
        tlc.require_ok(res, cfg)
        ctx.add_tlc("IndParams intended design: Lossless", res)
        if res.violated:
            ctx.violation({"check": "design", "invariant": res.violated[0]}, f"IndParams.tla violates {res.violated}", replay=res.trace_text[:3000])
    ecfg = os.path.join(tmp, "enum.cfg")
    with open(ecfg, "w") as f:
        f.write(open(os.path.join(tlc.SPECS, "MC_IndParams.cfg")).read().replace("MaxParams = 2", "MaxParams = 2" if q else "MaxParams = 3"))
    res, cs = cases.enumerate_cases("MC_IndParams", ecfg, tmp, "ip")
    ctx.add_tlc("IndParams as built: LosslessExceptNamed + case enumeration", res)
    if res.violated:
        ctx.violation({"check": "design", "invariant": res.violated[0]}, f"IndParams.tla violates {res.violated}", replay=res.trace_text[:3000])
    rnd = random.Random(ctx.seed)
    recs = []
    reps = 1 if q else 4
    for c in cs:
        decls = sorted(({"name": d["name"], "shape": d["shape"]} for d in (dict(x) for x in c["params"])), key=lambda d: d["name"])
        for _ in range(reps):
            recs.append(run_case(list(c["ids"]), decls, str(c["path"]), rnd, tmp))
    ok, idx, r2 = cases.validate_records("IndParamsTrace", CFG_T, recs, tmp, "ip_conf", env={"EXPECT_COUNT": str(len(cs))})
    ctx.traces += len(recs)
    ctx.states += r2.distinct
    ctx.transitions += r2.generated
    for r in recs:
        ctx.case(key=(tuple(r["ids"]), repr(r["decls"]), r["path"]))
    ctx.log(f"{len(recs)} conversions of {len(cs)} cases -> {'all conform' if ok else 'MISMATCH'} ({r2.wall:.1f}s)")
    if not ok:
        bad = recs[idx] if idx is not None else None
        ctx.violation({"check": "conformance", "violated": r2.violated[0], "path": bad and bad["path"], "status": bad and bad["status"]},
                      f"IndividualParameters conversion differs from IndParams.tla ({r2.violated}) on {bad}", replay=bad)
    # the as-built deviations, when observed, are the known findings
    scal = [r for r in recs if r["status"] == "IndexError" or (r["path"] == "pt" and any(d["shape"] == "scalar" for d in r["decls"]))]
    if scal:
        ctx.violation({"check": "lossless", "deviation": "scalar"},
                      f"scalar-valued parameters do not convert losslessly ({len(scal)} cases), e.g. {scal[0]['decls']} via {scal[0]['path']}: {scal[0]['status']}", replay=scal[0])
    und = [r for r in recs if r["status"] == "ok" and any(d["name"] == "my" for d in r["out"])]
    if und:
        ctx.violation({"check": "lossless", "deviation": "underscore"},
                      f"a parameter name containing '_' is cut at its first underscore through the table form ({len(und)} cases)", replay=und[0])
    ctx.sample(recs[5])
    ctx.sample(next(r for r in recs if r["status"] != "ok"))
    import copy
    good = next(r for r in recs if r["status"] == "ok" and len(r["ids"]) == 3)
    bad = copy.deepcopy(good)
    bad["ids_out"] = list(reversed(bad["ids_out"]))
    ok, idx, _ = cases.validate_records("IndParamsTrace", CFG_T.replace("INVARIANT Covered\n", ""), [good, bad], tmp, "ip_self", env={"EXPECT_COUNT": "0"})
    if ok or idx != 1:
        raise tlc.MachineryError("binding self-test failed: reversed identifiers accepted")
    ctx.log("self-test: reversed identifiers rejected (as required)")
    ctx.exhaustive = True


def replay(ctx, path):
    import json
    print(json.dumps(json.load(open(path)), indent=1))
    run(ctx)
