"""C08 - likelihood terms are the negative log-densities of the documented distributions (Likelihood.tla)."""
import math
import os
import random
import warnings

import torch

from .. import cases, tlc, zoo
from ..drivers import likelihood as lk
from ..terms import ev

CFG_T = """SPECIFICATION TSpec
CONSTANTS
  Families = {}
  Censorings = {}
  Positions = {}
  Shapes = {}
  Sources = {}
  Outcomes = {}
  Probs = {}
INVARIANT Conforms
INVARIANT Covered
"""


def model_level(ctx, rnd):
    """state['nll_attach_*_ind'] / ['nll_regul_*'] of real models against the same terms, entry by entry."""
    from leaspy.io.data.dataset import Dataset
    bad = []
    normal = ("add", ("add", ("mul", ("num", 1, 2), ("sq", ("div", ("sub", ("var", "x"), ("var", "mu")), ("var", "sigma")))),
                      ("log", ("var", "sigma"))), ("mul", ("num", 1, 2), ("log", ("mul", ("num", 2, 1), ("var", "pi")))))
    # (the mixture model is left out: drawing its individual latent values from the mixture prior raises inside torch -
    # the state the comparison needs cannot be built; its densities are bound through the sampler traces of C03)
    for kind in (["logistic_diag_src1", "joint_src1", "logistic_binary"] if ctx.quick else [k for k in zoo.CONFIGS if not k.startswith("mixture")]):
        with warnings.catch_warnings():
            warnings.simplefilter("ignore")
            model, data, df = zoo.make(kind, n_ind=5, seed=rnd.randrange(5), missing=0.2 if "binary" not in kind else 0.0)
            ds = Dataset(data)
            model.initialize(ds)
            st = model.state.clone(disable_auto_fork=True)
            model.put_data_variables(st, ds)
            st.put_individual_latent_variables("samples", n_individuals=ds.n_individuals)
            if "event" in st.dag:
                # keep every event after the individual's reference time or not: move tau of individual 0 past its event
                tau = st["tau"].clone()
                tau[0, 0] = float(ds.event_time[0, 0]) + 1.0
                st["tau"] = tau
            n_checked = 0
            # individual priors: Normal(x; mean, std) entry by entry
            for v in ("tau", "xi"):
                got = st[f"nll_regul_{v}_ind"]
                if got.ndim != 1:
                    continue
                for i in range(ds.n_individuals):
                    env = {"pi": math.pi, "x": float(st[v][i, 0]), "mu": float(st[f"{v}_mean"].reshape(-1)[0]), "sigma": float(st[f"{v}_std"].reshape(-1)[0])}
                    n_checked += 1
                    if not lk.close(float(got[i]), ev(normal, env), rel=5e-4, abs_=1e-4):
                        bad.append((kind, f"nll_regul_{v}_ind", i))
            # Gaussian attachment: sum over observed entries
            if "noise_std" in model.parameters and "y" in st.dag:
                y, mdl = st["y"], st["model"]
                mv = mdl.value if hasattr(mdl, "value") else mdl
                ns = st["noise_std"].reshape(-1)
                key = "nll_attach_y_ind" if "nll_attach_y_ind" in st.dag else "nll_attach_ind"
                got = st[key]
                for i in range(ds.n_individuals):
                    tot = 0.0
                    for t in range(y.value.shape[1]):
                        for f in range(y.value.shape[2]):
                            if bool(y.weight[i, t, f]):
                                env = {"pi": math.pi, "x": float(y.value[i, t, f]), "mu": float(mv[i, t, f]), "sigma": float(ns[f] if ns.numel() > 1 else ns[0])}
                                tot += ev(normal, env)
                    n_checked += 1
                    if not lk.close(float(got[i]), tot, rel=5e-4, abs_=1e-3):
                        bad.append((kind, key, i))
            if "event" in st.dag:
                got = st["nll_attach_event_ind"]
                src = "survival_shifts" in st.dag and model.source_dimension
                for i in range(ds.n_individuals):
                    env = {"t": float(ds.event_time[i, 0]), "tau": float(st["tau"][i, 0]), "rho": float(st["rho"].reshape(-1)[0]),
                           "nu": float(st["nu"].reshape(-1)[0]), "xi": float(st["xi"][i, 0]),
                           "shift": float(st["survival_shifts"][i].reshape(-1)[0]) if src else 0.0}
                    tr = env["t"] - env["tau"]
                    obs = bool(ds.event_bool[i, 0])
                    if tr <= 0:
                        exp = 1e307 if obs else 0.0
                    else:
                        nu = lk.NU(bool(src))
                        surv = ("pow", ("div", ("sub", ("var", "t"), ("var", "tau")), nu), ("var", "rho"))
                        haz = ("add", ("log", ("div", ("var", "rho"), nu)), ("mul", ("sub", ("var", "rho"), ("num", 1, 1)),
                                                                                    ("log", ("div", ("sub", ("var", "t"), ("var", "tau")), nu))))
                        exp = ev(surv, env) - (ev(haz, env) if obs else 0.0)
                    n_checked += 1
                    g = float(got[i])
                    if not ((math.isfinite(g) and g >= 1e300) if exp == 1e307 else lk.close(g, exp, rel=1e-3, abs_=1e-4)):
                        bad.append((kind, "nll_attach_event_ind", i, g, exp))
            ctx.case(key=("model", kind), n=n_checked)
            ctx.log(f"model-level terms of {kind}: {n_checked} entries compared")
    return bad


def run(ctx):
    q = ctx.quick
    ctx.rule = ("TLC enumerates the case structure of Likelihood.tla (Gaussian; Bernoulli outcome x {interior, saturated}; "
                "right-censored Weibull: censored / observed x event before / at / after the reference time x 4 shape classes "
                "(incl. exactly 1 and exactly 3) x with / without space shifts) and checks CensoredOnlySurvival and Finite; each "
                "case is instantiated with seeded numeric points, the real distribution families are evaluated (single entries, "
                "per-feature scales, two competing events with opposite censoring flags; for the Gaussian families also the values handed "
                "out together with their derivative, for the Weibull families also the hazard and log-survival they hand out after the reference time "
                "against exp(LogHazard) / -Survival; an exception raised inside the support is a mismatch) and compared with the term of the case "
                "evaluated by the generic term evaluator; TLC checks that every case conforms and that the records cover the case "
                "space (LikelihoodTrace.tla). Model-level variables (individual priors, Gaussian attachment over observed entries, "
                "event attachment of the joint model with one event moved before the reference time) are compared entry by entry "
                "with the same terms. Distinct = distinct (case, point).")
    ctx.level = "other"
    ctx.assumptions = ["equality with the density rests on the float64 term evaluator (harness/terms.py, ~60 lines) + math",
                       "tolerance 2e-4 relative (5e-4 for Weibull, float32 pow / exp)"]
    tmp = os.path.join(ctx.tmp, "lk")
    os.makedirs(tmp, exist_ok=True)
    res, cs = cases.enumerate_cases("Likelihood", "MC_Likelihood.cfg", tmp, "lk")
    ctx.add_tlc("Likelihood case structure", res)
    if res.violated:
        ctx.violation({"check": "design", "invariant": res.violated[0]}, f"Likelihood.tla violates {res.violated}", replay=res.trace_text[:3000])
    rnd = random.Random(ctx.seed)
    recs = [lk.run_case(c, rnd, 60 if q else 800) for c in cs]
    for r in recs:
        ctx.case(key=(r["fam"], r["cens"], r["pos"], r["shp"], r["src"], r["yb"], r["pb"]), n=r["n_points"])
    ok, idx, r2 = cases.validate_records("LikelihoodTrace", CFG_T, [{k: v for k, v in r.items() if k not in ("worst", "derivative_notes")} for r in recs], tmp, "conf",
                                         env={"EXPECT_COUNT": str(len(cs))})
    ctx.traces += len(recs)
    ctx.states += r2.distinct
    ctx.transitions += r2.generated
    ctx.log(f"{len(recs)} cases x {recs[0]['n_points']} points through the real distribution families -> {'all conform' if ok else 'MISMATCH'}")
    ctx.sample({k: v for k, v in recs[10].items()})
    # conformance notes beyond the property: derivatives (D(Term, "x") of Likelihood.tla)
    dn = {}
    for r in recs:
        for k, v in r["derivative_notes"].items():
            if isinstance(v, int):
                dn[k] = dn.get(k, 0) + v
            elif v is not None and k not in dn:
                dn[k] = {"fam": r["fam"], **v}
    ctx.extra["derivative_notes"] = dn
    ctx.log(f"notes (not part of the verdict): D(Term, x) vs central difference {dn.get('d_self_ok', 0)} ok / {dn.get('d_self_bad', 0)} off; "
            f"derivatives handed out by the Gaussian families vs D(Term, x): {dn.get('jac_ok', 0)} ok / {dn.get('jac_bad', 0)} off"
            + (f" e.g. {dn['jac_example']}" if dn.get("jac_example") else "")
            + f"; corrected survival predicted by the Weibull families vs exp(LogSurvivalTerm(t) - LogSurvivalTerm(t0)): {dn.get('pred_ok', 0)} ok / {dn.get('pred_bad', 0)} off"
            + (f" e.g. {dn['pred_example']}" if dn.get("pred_example") else ""))
    if not ok:
        for r in recs:
            if not (r["all_match"] and r["all_finite"] and r["layouts_match"] and r["routes_agree"]):
                what = "value" if not r["all_match"] else ("finite" if not r["all_finite"] else ("layout" if not r["layouts_match"] else "other route of the family (value-and-derivative / hazard / log-survival)"))
                ctx.violation({"check": "case", "fam": r["fam"], "kind": r["kind"], "what": what},
                              f"{r['fam']} negative log-density differs from Likelihood.tla in case {r['cens']}/{r['pos']}/{r['shp']}/src={r['src']}/"
                              f"{r['yb']}/{r['pb']}: {what}; {r['worst']}", replay=r)
    bad = model_level(ctx, rnd)
    for b in bad[:5]:
        ctx.violation({"check": "model_level", "kind": b[0], "variable": b[1]}, f"model-level likelihood variable differs from the term: {b}", replay=list(b))
    import copy
    g = {k: v for k, v in recs[0].items() if k not in ("worst", "derivative_notes")}
    b = copy.deepcopy(g)
    b["all_match"] = False
    ok, idx, _ = cases.validate_records("LikelihoodTrace", CFG_T.replace("INVARIANT Covered\n", ""), [g, b], tmp, "selftest", env={"EXPECT_COUNT": "0"})
    if ok or idx != 1:
        raise tlc.MachineryError("binding self-test failed")
    ctx.explanation = ctx.rule
    ctx.exhaustive = True


def replay(ctx, path):
    import json
    print(json.dumps(json.load(open(path)), indent=1))
    run(ctx)
