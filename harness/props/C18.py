"""C18 - simulation honours the requested design (SimDesign.tla)."""
import os
import random

from .. import cases, tlc
from ..drivers import simdesign as sd

CFG_T = """SPECIFICATION TSpec
CONSTANTS
  VisitTypes = {}
  PNs = {}
  Stds = {}
  DMeans = {}
  DStds = {}
  Spacings = {}
  FollowUps = {}
  FeatKinds = {}
  Missing = {}
  Cols = {}
  NullTimes = {}
  IdKinds = {}
  TabShapes = {}
  SrcDims = {}
  NoiseKinds = {}
  MaxDev = 15
  Deviations = {}
INVARIANT Conforms
"""
# named deviations still modelled as built (none: D2-D11 of the tree as given were all repaired, see known_findings.json)
DEVIATIONS = {}


def valid(r):
    if r["feats"] != "ok" or r["vt"] not in ("random", "dataframe"):
        return False
    if r["vt"] == "random":
        return (not r["missing"] and r["pn"] in ("pos", "one") and r["std"] == "ok" and r["spacing"] in ("absent", "one", "tenth", "tiny")
                and r["dmean"] == "pos")
    return r["cols"] == "ok" and not r["nulltime"]


def run(ctx):
    q = ctx.quick
    ctx.rule = ("TLC enumerates every design with at most 2 (3 in the thorough tier) attributes off the valid base over 15 attribute "
                "classes of SimDesign.tla (visit type, patient number kinds incl. a single individual, standard deviations, mean / std of "
                "the interval between visits incl. a std comparable to the mean, minimal spacing, follow-up zero / decades long, feature "
                "list kinds, missing parameter, table columns / null ages / identifier typing / rows out of order with a repeated age / "
                "ages decades after onset, model with / without sources, per-feature noise just fitted / scalar noise loaded from a file) and checks Honoured (valid => completes, invalid => refused) on the intended design; every "
                "enumerated design is made concrete and run on a real fitted logistic model under a 10 s alarm watchdog; TLC compares "
                "the outcome class (completes / refused with the algorithm-input error / crash class / timeout) with Outcome "
                "(the ten deviations of the tree as given were repaired) and checks the post-conditions of completed runs: exact individuals, unique increasing "
                "ages rounded to the precision implied by the spacing, finite values in [0,1] for every feature, one parameter set "
                "per individual (SimDesignTrace.tla). Distinct = distinct design class.")
    ctx.assumptions = ["a design is reported as non-terminating when the pure-Python generation loop is still running after 10 s "
                       "(valid small designs take < 1 s)"]
    tmp = os.path.join(ctx.tmp, "sd")
    os.makedirs(tmp, exist_ok=True)
    cfg = os.path.join(tmp, "enum.cfg")
    txt = open(os.path.join(tlc.SPECS, "MC_SimDesign.cfg")).read()
    if not q:
        txt = txt.replace("MaxDev = 2", "MaxDev = 3")
    with open(cfg, "w") as f:
        f.write(txt)
    res, cs = cases.enumerate_cases("SimDesign", cfg, tmp, "sd")
    ctx.add_tlc("SimDesign intended design: Honoured + enumeration", res)
    if res.violated:
        ctx.violation({"check": "design", "invariant": res.violated[0]}, f"SimDesign.tla violates {res.violated}", replay=res.trace_text[:3000])
    rnd = random.Random(ctx.seed)
    recs = []
    for c in cs:
        d = {k: (bool(v) if isinstance(v, bool) else (int(v) if isinstance(v, int) else str(v))) for k, v in c["d"].items()}
        recs.append(sd.run_design(d, rnd, seed=ctx.seed + 7, watchdog=10))
        ctx.case(key=tuple(sorted(d.items())))
    ok, idx, r2 = cases.validate_records("SimDesignTrace", CFG_T, [{k: v for k, v in r.items() if k != "error"} for r in recs], tmp, "conf")
    ctx.traces += len(recs)
    ctx.states += r2.distinct
    ctx.transitions += r2.generated
    n_by = {}
    for r in recs:
        n_by[r["outcome"]] = n_by.get(r["outcome"], 0) + 1
    ctx.extra["outcomes"] = n_by
    ctx.log(f"{len(recs)} design classes run -> {'all conform' if ok else 'MISMATCH'} ({r2.wall:.1f}s); outcomes {n_by}")
    ctx.sample({k: v for k, v in recs[0].items()})
    if not ok:
        bad = recs[idx] if idx is not None else None
        ctx.violation({"check": "conformance", "outcome": bad and bad["outcome"], "vt": bad and bad["vt"]},
                      f"simulate() differs from SimDesign.tla on design {bad}", replay=bad)
    # the named deviations, when observed, are the known findings
    for name, pred in DEVIATIONS.items():
        hit = [r for r in recs if pred(r) and ((r["outcome"] == "completes") != valid(r) or r["outcome"] not in ("completes", "refused"))]
        if hit:
            ctx.violation({"check": "honoured", "deviation": name},
                          f"{name}: design {dict((k, hit[0][k]) for k in ('vt','pn','spacing','dmean','dstd','feats','missing','cols','idkind','src'))} -> "
                          f"{hit[0]['outcome']} {hit[0]['error']}", replay=hit[0])
    other = [r for r in recs if ((r["outcome"] == "completes") != valid(r) or r["outcome"] not in ("completes", "refused"))
             and not any(p(r) for p in DEVIATIONS.values())]
    for r in other[:3]:
        ctx.violation({"check": "honoured", "deviation": "unlisted", "outcome": r["outcome"]}, f"design {r} -> {r['outcome']} {r['error']}", replay=r)
    import copy
    good = next({k: v for k, v in r.items() if k != "error"} for r in recs if r["outcome"] == "completes")
    bad = copy.deepcopy(good)
    bad["ages_increasing_unique"] = False
    ok, idx, _ = cases.validate_records("SimDesignTrace", CFG_T, [good, bad], tmp, "selftest")
    if ok or idx != 1:
        raise tlc.MachineryError("binding self-test failed")
    ctx.exhaustive = True


def replay(ctx, path):
    import json
    print(json.dumps(json.load(open(path)), indent=1))
    run(ctx)
