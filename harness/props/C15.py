"""C15 - dependency-graph construction is exact (VarGraph.tla)."""
import os
import random

from .. import tlc, zoo
from ..drivers import vargraph as vg


def run(ctx):
    q = ctx.quick
    ctx.rule = ("TLC checks RejectExactly / TopoOrder / ClosureExact of the transcribed builder on every declaration over "
                "N nodes (unknown references and self loops included); the real VariablesDAG is run on every "
                "declaration over 3 nodes (4 in the thorough tier), on sampled DAGs / digraphs / dirty declarations up "
                "to 8 nodes, twice with shuffled insertion orders, and on the graph of every shipped model kind; TLC "
                "compares each recorded result (exception class, order, ordered closures) with Build(par). "
                "Distinct = distinct declaration.")
    ctx.assumptions = ["status classes are compared by exception class (LeaspyInputError / ValueError), not by message"]
    # 1. the design: exhaustive
    for n in [3, 4]:
        res = tlc.run("VarGraph", f"MC_VarGraph{n}.cfg", workers=16, timeout=3000)
        tlc.require_ok(res, f"VarGraph N={n}")
        ctx.add_tlc(f"VarGraph all declarations over {n} nodes", res)
        ctx.log(f"TLC VarGraph N={n}: {res.distinct} declarations, violated={res.violated} ({res.wall:.1f}s)")
        if res.violated:
            ctx.violation({"check": "design", "n": n, "invariant": res.violated[0]}, f"VarGraph.tla violates {res.violated}",
                          replay=res.trace_text[:4000])
    # 2. code -> spec
    rnd = random.Random(ctx.seed)
    batches = []
    recs = [vg.run_real(p) for p in vg.all_declarations(3)]
    batches.append(("all3", recs, 3, 16 ** 3))
    if not q:
        # worker processes are spawned (not forked: forking a process in which torch has started its thread pools can hang)
        # and enumerate their own share of the declarations
        import multiprocessing as mp
        with mp.get_context("spawn").Pool(16) as pool:
            parts = pool.map(vg.run_chunk, [(4, i) for i in range(vg.n_subsets(4))], chunksize=1)
        recs4 = [r for part in parts for r in part]
        ctx.log(f"ran the real VariablesDAG on all {len(recs4)} declarations over 4 nodes")
        for c in range(16):
            batches.append((f"all4_{c}", recs4[c::16], 0, 0))
        ctx.extra["exhaustive_code_side_nodes"] = 4
    sampled = []
    n_s = 10000 if q else 150000
    for i in range(n_s):
        n = rnd.randint(4, 8)
        kind = rnd.choice(["dag", "dag", "digraph", "dirty"])
        p = vg.random_declaration(rnd, n, kind)
        sampled.append(vg.run_real(p, shuffle_seed=rnd.randrange(10 ** 6) if i % 2 else None))
        if i % 10 == 0:  # determinism: same declaration, another insertion order
            sampled.append(vg.run_real(p, shuffle_seed=rnd.randrange(10 ** 6)))
    chunk = 4000
    for c in range(0, len(sampled), chunk):
        batches.append((f"sampled_{c // chunk}", sampled[c:c + chunk], 0, 0))
    structured = [vg.run_real(p, shuffle_seed=rnd.randrange(10 ** 6)) for p in vg.structured_declarations()]
    batches.append(("structured", structured, 0, 0))
    models = []
    for name in zoo.CONFIGS:
        m, data, df = zoo.make(name)
        m.initialize(zoo_dataset(data, m))
        models.append(vg.model_declaration(m))
        models.append(vg.model_declaration(m, incremental=True))
    batches.append(("models", models, 0, 0))
    n_ok = sum(r["cls"] == "ok" for _, rs, _, _ in batches for r in rs)
    for tag, rs, en, ec in batches:
        ok, idx, res = vg.validate(rs, os.path.join(ctx.tmp, "vg"), tag, en, ec, ref=(tag not in ("models", "structured")))
        ctx.states += res.distinct
        ctx.transitions += res.generated
        ctx.traces += len(rs)
        for r in rs:
            ctx.case(key=repr(r["par"]))
        ctx.log(f"TLC compared {len(rs)} recorded constructions ({tag}) with Build(par): {'all conform' if ok else 'MISMATCH'} ({res.wall:.1f}s)")
        if not ok:
            bad = rs[idx] if idx is not None and idx < len(rs) else None
            ctx.violation({"check": "conformance", "batch": tag.split("_")[0], "violated": res.violated[0]},
                          f"VariablesDAG result differs from VarGraph.tla Build(par) ({res.violated}) on {bad}",
                          replay={"record": bad, "tlc": res.trace_text[:3000]})
    ctx.sample(batches[0][1][777])
    ctx.sample(sampled[5])
    ctx.sample({"model graph nodes": len(models[0]["par"]), "order": models[0]["order"][:12]})
    ctx.extra["accepted_declarations"] = n_ok
    # 3. binding self-test: a corrupted record must be rejected
    good = next(r for r in sampled if r["cls"] == "ok" and len(r["order"]) >= 5 and any(len(a) >= 2 for a in r["anc"]))
    bad = dict(good)
    bad["anc"] = [list(reversed(a)) if len(a) >= 2 else a for a in good["anc"]]
    ok, idx, res = vg.validate([good, bad], os.path.join(ctx.tmp, "vg"), "selftest")
    if ok or idx != 1:
        raise tlc.MachineryError("binding self-test failed: a record with reversed closures was accepted")
    ctx.log("self-test: record with reversed ancestor order rejected (as required)")
    ctx.exhaustive = True


def zoo_dataset(data, model):
    from leaspy.io.data.dataset import Dataset
    return Dataset(data)


def replay(ctx, path):
    import json
    print(json.dumps(json.load(open(path)), indent=1))
    run(ctx)
