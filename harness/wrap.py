"""Run-time recorders installed by the harness (no file under /repo is changed; DESIGN 2.5).

StateRecorder wraps the public methods of leaspy.variables.state.State and logs one event per
linearization point (the return of the method, error path included)."""
from __future__ import annotations

import functools
import json

import torch

import leaspy.models  # noqa: F401
from leaspy.exceptions import LeaspyInputError
from leaspy.utils.weighted_tensor import WeightedTensor
from leaspy.variables.state import State, StateForkType

_RMODE = {None: "none", StateForkType.REF: "ref", StateForkType.COPY: "copy"}


def tensors_equal(a, b, rtol=0.0, atol=0.0):
    if a is None or b is None:
        return a is None and b is None
    if isinstance(a, WeightedTensor) != isinstance(b, WeightedTensor):
        return False
    if isinstance(a, WeightedTensor):
        if (a.weight is None) != (b.weight is None):
            return False
        if a.weight is not None and not torch.equal(a.weight, b.weight):
            return False
        a, b = a.weighted_value if a.weight is not None else a.value, b.weighted_value if b.weight is not None else b.value
    if not isinstance(a, torch.Tensor) or not isinstance(b, torch.Tensor):
        return a == b
    if a.shape != b.shape or a.dtype != b.dtype:
        return False
    if rtol == 0.0 and atol == 0.0:
        return bool(torch.equal(torch.nan_to_num(a.double(), nan=-1.2345e300), torch.nan_to_num(b.double(), nan=-1.2345e300))) \
            if a.is_floating_point() else bool(torch.equal(a, b))
    return bool(torch.allclose(a.double(), b.double(), rtol=rtol, atol=atol, equal_nan=True))


def from_scratch_state(state: State) -> State:
    """A fresh State of the same graph holding only the independent values of `state`."""
    fresh = State(state.dag)
    for n in state.dag:
        var = state.dag[n]
        if len(var.get_ancestors_names()) == 0 and var.is_settable:
            fresh._values[n] = state._values[n]
    return fresh


def stale_nodes(state: State, rtol=0.0, atol=0.0):
    """Cached nodes whose tensor differs from the from-scratch evaluation on the current independent values."""
    fresh = from_scratch_state(state)
    out = []
    for n in state.dag:
        v = state._values[n]
        if v is None or len(state.dag[n].get_ancestors_names()) == 0:
            continue
        try:
            ref = fresh[n]
        except LeaspyInputError:
            ref = None
        if not tensors_equal(v, ref, rtol, atol):
            out.append(n)
    return out


class StateRecorder:
    def __init__(self, probe_every: int = 0, probe_on=("RevertFull", "RevertPartial"), probe_tol=(0.0, 0.0)):
        self.events = []
        self.objs = {}        # id(state) -> small int
        self.keep = []        # strong references (ids must not be reused)
        self.modes = {}
        self.depth = 0
        self.dags = []
        self.probe_every = probe_every
        self.probe_on = set(probe_on)
        self.probe_tol = probe_tol
        self.n_since_probe = 0
        self._orig = {}
        self.enabled = True
        self.pre_ctx = None

    # ---- projection ------------------------------------------------------
    def oid(self, st):
        k = id(st)
        if k not in self.objs:
            self.objs[k] = len(self.objs) + 1
            self.keep.append(st)
        return self.objs[k]

    def proj(self, st):
        f = st._last_fork
        return {
            "cached": [n for n, v in st._values.items() if v is not None],
            "has_fork": f is not None,
            "fork_keys": sorted(f) if f is not None else [],
            "fork_set": sorted(k for k, v in f.items() if v is not None) if f is not None else [],
            "mode": _RMODE[st.auto_fork_type],
        }

    def gid(self, st):
        for i, d in enumerate(self.dags):
            if d is st.dag:
                return i
        self.dags.append(st.dag)
        return len(self.dags) - 1

    def emit(self, op, st, outcome="-", **kw):
        o = self.oid(st)
        e = {"op": op, "o": o, "outcome": outcome, "g": self.gid(st)}
        e.update(kw)
        e.update(self.proj(st))
        self.modes[o] = e["mode"]
        self.events.append(e)
        self.n_since_probe += 1
        if op in self.probe_on or (self.probe_every and self.n_since_probe >= self.probe_every):
            self.probe(st)

    def probe(self, st):
        self.n_since_probe = 0
        self.depth += 1
        try:
            stale = stale_nodes(st, *self.probe_tol)
        finally:
            self.depth -= 1
        e = {"op": "Probe", "o": self.oid(st), "stale": stale, "outcome": "-", "g": self.gid(st)}
        self.events.append(e)

    def check_mode(self, st):
        o = self.objs.get(id(st))
        if o is None:
            return
        m = _RMODE[st.auto_fork_type]
        if self.modes.get(o) != m:
            self.emit("SetMode", st)

    # ---- wrappers --------------------------------------------------------
    def _wrap(self, name, handler, pre=None):
        orig = getattr(State, name)
        self._orig[name] = orig
        rec = self

        @functools.wraps(orig)
        def wrapper(st, *a, **kw):
            if not rec.enabled or rec.depth > 0:
                return orig(st, *a, **kw)
            if name != "__init__":
                if id(st) not in rec.objs:      # created before recording started (or in another way)
                    rec.depth += 1
                    try:
                        rec.adopt(st)
                    finally:
                        rec.depth -= 1
                rec.check_mode(st)
            rec.pre_ctx = pre(st, a, kw) if pre is not None else None
            rec.depth += 1
            outcome = "-"
            result = None
            try:
                result = orig(st, *a, **kw)
                return result
            except LeaspyInputError:
                outcome = "input_error"
                raise
            except BaseException as ex:
                outcome = f"other:{type(ex).__name__}"
                raise
            finally:
                rec.depth -= 1
                handler(st, a, kw, outcome, result)
        setattr(State, name, wrapper)

    def adopt(self, st):
        """An object first seen mid-life: describe it as New + assignments of what it holds (set pattern only)."""
        o = self.oid(st)
        self.events.append({"op": "Adopt", "o": o, "outcome": "-", "g": self.gid(st), **self.proj(st)})
        self.modes[o] = _RMODE[st.auto_fork_type]

    def install(self):
        def h_init(st, a, kw, outcome, result):
            self.emit("New", st, outcome)

        def h_set(st, a, kw, outcome, result):
            name = a[0] if a else kw.get("name")
            value = a[1] if len(a) > 1 else kw.get("value")
            self.emit("Assign", st, outcome, n=name, isnone=value is None)

        def h_get(st, a, kw, outcome, result):
            name = a[0] if a else kw.get("name")
            if outcome.startswith("other:"):
                self.emit("ReadFailed", st, outcome, n=name)
            else:
                self.emit("Read", st, "ok" if outcome == "-" else outcome, n=name)

        def h_pre(st, a, kw, outcome, result):
            self.emit("PrecomputeAll", st, "ok" if outcome == "-" else outcome)

        def p_rev(st, a, kw):
            # numeric oracle for C02: remember the fork and the current values of its keys (references only)
            f = st._last_fork
            if f is None:
                return None
            return dict(f), {k: st._values[k] for k in f}

        def h_rev(st, a, kw, outcome, result):
            subset = a[0] if a else kw.get("subset")
            exact = True
            if self.pre_ctx is not None and outcome == "-":
                old, cur = self.pre_ctx
                for k in old:
                    now = st._values[k]
                    if subset is None:
                        ok = tensors_equal(now, old[k])
                    elif old[k] is None or cur[k] is None:
                        ok = now is None
                    else:
                        m = subset.to(torch.bool)
                        ov, cv, nv = (x.value if isinstance(x, WeightedTensor) else x for x in (old[k], cur[k], now))
                        ok = nv.shape == ov.shape and tensors_equal(nv[m], ov[m]) and tensors_equal(nv[~m], cv[~m])
                        if isinstance(now, WeightedTensor):
                            ok = ok and isinstance(old[k], WeightedTensor) and (
                                (now.weight is None and old[k].weight is None) or torch.equal(now.weight, old[k].weight))
                    if not ok:
                        exact = False
            if subset is None:
                self.emit("RevertFull", st, "no_fork" if outcome == "input_error" else outcome, exact=exact)
            else:
                self.emit("RevertPartial", st, "no_fork" if outcome == "input_error" else outcome, exact=exact, n_reverted=int(subset.to(torch.bool).sum()),
                          n_rows=int(subset.numel()))

        def h_clone(st, a, kw, outcome, result):
            if result is not None:
                self.oid(st)
                self.emit("Clone", result, outcome, src=self.oid(st), dis=bool(kw.get("disable_auto_fork", False)),
                          keep=bool(kw.get("keep_last_fork", False)))

        def h_clear(st, a, kw, outcome, result):
            self.emit("Clear", st, outcome)

        self._wrap("__init__", h_init)
        self._wrap("__setitem__", h_set)
        self._wrap("__getitem__", h_get)
        self._wrap("precompute_all", h_pre)
        self._wrap("revert", h_rev, pre=p_rev)
        self._wrap("clone", h_clone)
        self._wrap("clear", h_clear)
        return self

    def uninstall(self):
        for name, orig in self._orig.items():
            setattr(State, name, orig)
        self._orig = {}

    def __enter__(self):
        return self.install()

    def __exit__(self, *a):
        self.uninstall()

    def main_graph(self):
        """Index of the graph with the most events."""
        counts = {}
        for e in self.events:
            counts[e["g"]] = counts.get(e["g"], 0) + 1
        return max(counts, key=counts.get)

    def events_of(self, g):
        """Events of graph g with objects renumbered 1..K."""
        ren = {}
        out = []
        for e in self.events:
            if e["g"] != g:
                continue
            e = dict(e)
            for key in ("o", "src"):
                if key in e:
                    e[key] = ren.setdefault(e[key], len(ren) + 1)
            del e["g"]
            out.append(e)
        return out, len(ren)

    def dump(self, path, g=None):
        evs, n_obj = self.events_of(self.main_graph() if g is None else g)
        with open(path, "w") as f:
            for e in evs:
                f.write(json.dumps(e) + "\n")
        return evs, n_obj
